// =====================================================================================
// PROVED LEMMA LIBRARY (nothing in this file is assumed: no external_body, no axiom, no assume)
// Verified again inside every unit on every run.
// =====================================================================================
pub mod lem {
use vstd::prelude::*;
use vstd::string::*;
use vstd::string::StringSliceAdditionalSpecFns;
use vstd::utf8::*;
use crate::vx::*;
verus! {

pub open spec fn ascii_seq(s: Seq<char>) -> bool { forall|i: int| 0 <= i < s.len() ==> is_ascii_c(#[trigger] s[i]) }

/// an ASCII string: one byte per char, every index is a char boundary
pub proof fn lemma_ascii_str(s: &str)
    requires is_ascii_chars(s@)
    ensures
        s.spec_bytes().len() == s@.len(),
        forall|i: int| 0 <= i < s@.len() ==> #[trigger] s.spec_bytes()[i] == s@[i] as u8,
        forall|i: int| 0 <= i <= s@.len() ==> #[trigger] is_char_boundary(s.spec_bytes(), i),
{
    is_ascii_chars_encode_utf8(s@);
    encode_utf8_valid_utf8(s@);
    let bytes = s.spec_bytes();
    assert(bytes == encode_utf8(s@));
    is_char_boundary_start_end_of_seq(bytes);
    assert forall|i: int| 0 <= i <= s@.len() implies #[trigger] is_char_boundary(bytes, i) by {
        if i < s@.len() {
            is_char_boundary_iff_not_is_continuation_byte(bytes, i);
            assert(bytes[i] == s@[i] as u8);
            assert((s@[i] as u32) < 128);
            let b = bytes[i];
            assert(b < 128);
            assert(!is_continuation_byte(b)) by (bit_vector) requires b < 128;
        }
    }
}

pub open spec fn is_ascii_chars_(s: Seq<char>) -> bool { is_ascii_chars(s) }

/// slicing an ASCII string on bytes is slicing on chars
pub proof fn lemma_slice_ascii(s: &str, a: int, b: int, r: &str)
    requires is_slice(s, a, b, r), is_ascii_chars(s@), 0 <= a <= b <= s@.len()
    ensures r@ == s@.subrange(a, b), is_ascii_chars(r@), r.spec_bytes().len() == b - a
{
    lemma_ascii_str(s);
    let t = s@.subrange(a, b);
    assert(is_ascii_chars(t)) by {
        assert forall|i: int| 0 <= i < t.len() implies (#[trigger] t[i] as u32) < 128 by { assert(t[i] == s@[a + i]); }
    }
    is_ascii_chars_encode_utf8(t);
    let et = encode_utf8(t);
    assert(et =~= s.spec_bytes().subrange(a, b)) by {
        assert forall|i: int| 0 <= i < et.len() implies et[i] == s.spec_bytes().subrange(a, b)[i] by {
            assert(t[i] == s@[a + i]);
            assert(et[i] == t[i] as u8);
        }
    }
    assert(encode_utf8(r@) == r.spec_bytes());
    encode_utf8_decode_utf8(t);
    encode_utf8_decode_utf8(r@);
    assert(decode_utf8(encode_utf8(r@)) == decode_utf8(et));
}

/// byte length is at least char length; and chars all ASCII means is_ascii
pub proof fn lemma_all_ascii_is_ascii(s: &str)
    requires ascii_seq(s@)
    ensures is_ascii_chars(s@), s.spec_bytes().len() == s@.len()
{
    assert forall|i: int| 0 <= i < s@.len() implies (#[trigger] s@[i] as u32) < 128 by { assert(is_ascii_c(s@[i])); }
    lemma_ascii_str(s);
}

// ------------------------------------------------------------------ digit strings
pub proof fn lemma_digits_val_1(s: Seq<char>)
    requires s.len() == 1
    ensures digits_val(s) == dval(s[0])
{
    reveal_with_fuel(digits_val, 3);
    assert(s.drop_last().len() == 0);
}
pub proof fn lemma_digits_val_2(s: Seq<char>)
    requires s.len() == 2
    ensures digits_val(s) == dval(s[0]) * 10 + dval(s[1])
{
    lemma_digits_val_1(s.drop_last());
    assert(s.drop_last()[0] == s[0]);
}
pub proof fn lemma_digits_val_3(s: Seq<char>)
    requires s.len() == 3
    ensures digits_val(s) == dval(s[0]) * 100 + dval(s[1]) * 10 + dval(s[2])
{
    lemma_digits_val_2(s.drop_last());
    assert(s.drop_last()[0] == s[0]);
    assert(s.drop_last()[1] == s[1]);
}
pub proof fn lemma_digits_val_4(s: Seq<char>)
    requires s.len() == 4
    ensures digits_val(s) == dval(s[0]) * 1000 + dval(s[1]) * 100 + dval(s[2]) * 10 + dval(s[3])
{
    lemma_digits_val_3(s.drop_last());
    assert(s.drop_last()[0] == s[0]);
    assert(s.drop_last()[1] == s[1]);
    assert(s.drop_last()[2] == s[2]);
}

} // verus!
} // mod lem
