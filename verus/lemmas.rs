// =====================================================================================
// PROVED LEMMA LIBRARY (nothing in this file is assumed: no external_body, no axiom, no assume)
// Verified again inside every unit on every run.
// =====================================================================================
pub mod lem {
use vstd::prelude::*;
use vstd::string::*;
use vstd::string::StringSliceAdditionalSpecFns;
use vstd::utf8::*;
use crate::vx::*;
verus! {

pub open spec fn ascii_seq(s: Seq<char>) -> bool { forall|i: int| 0 <= i < s.len() ==> is_ascii_c(#[trigger] s[i]) }

/// an ASCII string: one byte per char, every index is a char boundary
pub proof fn lemma_ascii_str(s: &str)
    requires is_ascii_chars(s@)
    ensures
        s.spec_bytes().len() == s@.len(),
        forall|i: int| 0 <= i < s@.len() ==> #[trigger] s.spec_bytes()[i] == s@[i] as u8,
        forall|i: int| 0 <= i <= s@.len() ==> #[trigger] is_char_boundary(s.spec_bytes(), i),
{
    is_ascii_chars_encode_utf8(s@);
    encode_utf8_valid_utf8(s@);
    let bytes = s.spec_bytes();
    assert(bytes == encode_utf8(s@));
    is_char_boundary_start_end_of_seq(bytes);
    assert forall|i: int| 0 <= i <= s@.len() implies #[trigger] is_char_boundary(bytes, i) by {
        if i < s@.len() {
            is_char_boundary_iff_not_is_continuation_byte(bytes, i);
            assert(bytes[i] == s@[i] as u8);
            assert((s@[i] as u32) < 128);
            let b = bytes[i];
            assert(b < 128);
            assert(!is_continuation_byte(b)) by (bit_vector) requires b < 128;
        }
    }
}

/// opaque alias of `is_ascii_chars`: facts about *slices* are stated with it so that the solver does not
/// instantiate the per-character quantifier on every derived sub-string (measured: exponential blow-up otherwise)
#[verifier::opaque]
pub open spec fn asc(s: Seq<char>) -> bool { is_ascii_chars(s) }
pub proof fn lemma_asc(s: Seq<char>)
    ensures asc(s) == is_ascii_chars(s)
{ reveal(asc); }
pub broadcast proof fn b_asc_intro(s: Seq<char>)
    requires #[trigger] is_ascii_chars(s)
    ensures asc(s)
{ reveal(asc); }

/// slicing an ASCII string on bytes is slicing on chars
pub proof fn lemma_slice_ascii(s: &str, a: int, b: int, r: &str)
    requires is_slice(s, a, b, r), is_ascii_chars(s@), 0 <= a <= b <= s@.len()
    ensures r@ == s@.subrange(a, b), is_ascii_chars(r@), r.spec_bytes().len() == b - a
{
    lemma_ascii_str(s);
    let t = s@.subrange(a, b);
    assert(is_ascii_chars(t)) by {
        assert forall|i: int| 0 <= i < t.len() implies (#[trigger] t[i] as u32) < 128 by { assert(t[i] == s@[a + i]); }
    }
    is_ascii_chars_encode_utf8(t);
    let et = encode_utf8(t);
    assert(et =~= s.spec_bytes().subrange(a, b)) by {
        assert forall|i: int| 0 <= i < et.len() implies et[i] == s.spec_bytes().subrange(a, b)[i] by {
            assert(t[i] == s@[a + i]);
            assert(et[i] == t[i] as u8);
        }
    }
    assert(encode_utf8(r@) == r.spec_bytes());
    encode_utf8_decode_utf8(t);
    encode_utf8_decode_utf8(r@);
    assert(decode_utf8(encode_utf8(r@)) == decode_utf8(et));
}

/// byte length is at least char length; and chars all ASCII means is_ascii
pub proof fn lemma_all_ascii_is_ascii(s: &str)
    requires ascii_seq(s@)
    ensures is_ascii_chars(s@), s.spec_bytes().len() == s@.len()
{
    assert forall|i: int| 0 <= i < s@.len() implies (#[trigger] s@[i] as u32) < 128 by { assert(is_ascii_c(s@[i])); }
    lemma_ascii_str(s);
}

/// a predicate that holds on every element of s[a..b) (stated on the sub-sequence) holds on s at a..b
pub proof fn lemma_sub_all(s: Seq<char>, a: int, b: int, p: spec_fn(char) -> bool)
    requires 0 <= a <= b <= s.len(), forall|j: int| 0 <= j < b - a ==> p(#[trigger] s.subrange(a, b)[j])
    ensures forall|i: int| a <= i < b ==> p(#[trigger] s[i])
{
    assert forall|i: int| a <= i < b implies p(#[trigger] s[i]) by { assert(s.subrange(a, b)[i - a] == s[i]); }
}
pub proof fn lemma_all_sub(s: Seq<char>, a: int, b: int, p: spec_fn(char) -> bool)
    requires 0 <= a <= b <= s.len(), forall|i: int| a <= i < b ==> p(#[trigger] s[i])
    ensures forall|j: int| 0 <= j < b - a ==> p(#[trigger] s.subrange(a, b)[j])
{
}

pub proof fn lemma_ascii_seq_len(t: Seq<char>)
    requires ascii_seq(t)
    ensures encode_utf8(t).len() == t.len()
{
    assert forall|i: int| 0 <= i < t.len() implies (#[trigger] t[i] as u32) < 128 by { assert(is_ascii_c(t[i])); }
    is_ascii_chars_encode_utf8(t);
}

// broadcast forms (proved from the lemmas above) so that extracted code needs no per-site hints
pub broadcast proof fn b_slice_ok_ascii(s: &str, a: int, b: int)
    requires asc(s@), 0 <= a <= b <= s@.len()
    ensures #[trigger] slice_ok(s, a, b)
{
    reveal(asc);
    lemma_ascii_str(s);
}
pub broadcast proof fn b_slice_ascii(s: &str, a: int, b: int, r: &str)
    requires #[trigger] is_slice(s, a, b, r), asc(s@), 0 <= a <= b <= s@.len()
    ensures r@ == s@.subrange(a, b), asc(r@), r.spec_bytes().len() == b - a
{
    reveal(asc);
    lemma_slice_ascii(s, a, b, r);
}
pub broadcast proof fn b_ascii_len(s: &str)
    requires #[trigger] asc(s@)
    ensures s.spec_bytes().len() == s@.len()
{
    reveal(asc);
    lemma_ascii_str(s);
}
/// in an ASCII string byte offsets and char indices coincide
pub broadcast proof fn b_ascii_boff(s: Seq<char>, i: int)
    requires asc(s), 0 <= i <= s.len()
    ensures #[trigger] boff(s, i) == i
{
    reveal(asc);
    let t = s.subrange(0, i);
    assert(is_ascii_chars(t)) by {
        assert forall|k: int| 0 <= k < t.len() implies (#[trigger] t[k] as u32) < 128 by { assert(t[k] == s[k]); }
    }
    is_ascii_chars_encode_utf8(t);
}
pub broadcast proof fn b_ascii_cidx(s: Seq<char>, b: int)
    requires asc(s), 0 <= b <= s.len()
    ensures #[trigger] cidx(s, b) == b
{
    reveal(asc);
    b_ascii_boff(s, b);
    axiom_cidx_boff(s, b);
}
/// start and end of any str are char boundaries (proved from vstd's UTF-8 model)
pub broadcast proof fn b_str_ends_boundary(s: &str)
    ensures is_char_boundary(#[trigger] s.spec_bytes(), 0), is_char_boundary(s.spec_bytes(), s.spec_bytes().len() as int)
{
    encode_utf8_valid_utf8(s@);
    is_char_boundary_start_end_of_seq(s.spec_bytes());
}
pub broadcast proof fn b_cidx_end(s: &str)
    ensures #[trigger] cidx(s@, s.spec_bytes().len() as int) == s@.len(), cidx(s@, 0) == 0
{
    axiom_boff_ends(s);
    axiom_cidx_boff(s@, s@.len() as int);
    axiom_cidx_boff(s@, 0);
}
/// UTF-8 encoding distributes over concatenation (induction on vstd's definition)
pub proof fn lemma_encode_concat(a: Seq<char>, b: Seq<char>)
    ensures encode_utf8(a + b) =~= encode_utf8(a) + encode_utf8(b)
    decreases a.len()
{
    if a.len() == 0 { assert(a + b =~= b); }
    else {
        assert((a + b)[0] == a[0]);
        assert((a + b).drop_first() =~= a.drop_first() + b);
        lemma_encode_concat(a.drop_first(), b);
    }
}
/// the byte offset of the start of an ASCII tail
pub proof fn lemma_boff_ascii_tail(s: Seq<char>, k: int)
    requires 0 <= k <= s.len(), is_ascii_chars(s.subrange(k, s.len() as int))
    ensures boff(s, k) == encode_utf8(s).len() - (s.len() - k)
{
    let a = s.subrange(0, k); let b = s.subrange(k, s.len() as int);
    assert(s =~= a + b);
    lemma_encode_concat(a, b);
    is_ascii_chars_encode_utf8(b);
}
/// an ASCII prefix of k characters occupies exactly k bytes
pub proof fn lemma_skip_ascii(s: &str, k: int)
    requires 0 <= k <= s@.len(), is_ascii_chars(s@.subrange(0, k))
    ensures is_char_boundary(s.spec_bytes(), k), k <= s.spec_bytes().len(), cidx(s@, k) == k, boff(s@, k) == k
{
    is_ascii_chars_encode_utf8(s@.subrange(0, k));
    axiom_boff_boundary(s, k);
    axiom_cidx_boff(s@, k);
}
/// char index of a byte offset inside a suffix slice: offsets add up
pub proof fn lemma_cidx_suffix(s: &str, a: int, t: &str, r: int)
    requires is_slice(s, a, s.spec_bytes().len() as int, t), slice_ok(s, a, s.spec_bytes().len() as int), 0 <= r <= t.spec_bytes().len(), is_char_boundary(t.spec_bytes(), r)
    ensures cidx(s@, a + r) == cidx(s@, a) + cidx(t@, r), t@ == s@.subrange(cidx(s@, a), s@.len() as int), is_char_boundary(s.spec_bytes(), a + r), a + r <= s.spec_bytes().len(),
            0 <= cidx(t@, r) <= t@.len(), 0 <= cidx(s@, a) <= s@.len()
{
    b_str_ends_boundary(s);
    b_cidx_end(s);
    axiom_slice_chars(s, a, s.spec_bytes().len() as int, t);
    axiom_cidx(s, a);
    axiom_cidx(t, r);
    axiom_boundary_suffix(s, a, t, r);
    let ca = cidx(s@, a);
    let i = cidx(t@, r);
    assert(s@.subrange(0, ca + i) =~= s@.subrange(0, ca) + t@.subrange(0, i));
    lemma_encode_concat(s@.subrange(0, ca), t@.subrange(0, i));
    assert(boff(s@, ca + i) == a + r);
    axiom_cidx_boff(s@, ca + i);
}
/// the first occurrence of a pattern in a suffix slice, found at byte offset r of the slice, seen from the whole string
pub proof fn lemma_suffix_find(s: &str, a: int, t: &str, r: int, pat: Seq<char>)
    requires is_slice(s, a, s.spec_bytes().len() as int, t), slice_ok(s, a, s.spec_bytes().len() as int), 0 <= r <= t.spec_bytes().len(), is_char_boundary(t.spec_bytes(), r),
             first_at(t@, pat, cidx(t@, r))
    ensures cidx(s@, a + r) == cidx(s@, a) + first_idx(s@.subrange(cidx(s@, a), s@.len() as int), pat),
            contains_seq(s@.subrange(cidx(s@, a), s@.len() as int), pat), is_char_boundary(s.spec_bytes(), a + r), a + r <= s.spec_bytes().len(),
            t@ == s@.subrange(cidx(s@, a), s@.len() as int)
{
    lemma_cidx_suffix(s, a, t, r);
    lemma_first_unique(t@, pat, cidx(t@, r));
}
pub broadcast group group_bounds { b_str_ends_boundary, b_cidx_end }
/// index of the first occurrence (meaningful when there is one)
pub open spec fn first_idx(s: Seq<char>, p: Seq<char>) -> int { choose|i: int| first_at(s, p, i) }
pub proof fn lemma_first_unique(s: Seq<char>, p: Seq<char>, i: int)
    requires first_at(s, p, i)
    ensures first_idx(s, p) == i, contains_seq(s, p), is_sub_at(s, p, i)
{
    reveal(first_at); reveal(contains_seq);
    let j = first_idx(s, p);
    assert(first_at(s, p, j));
    if i < j { assert(!is_sub_at(s, p, i)); }
    if j < i { assert(!is_sub_at(s, p, j)); }
}
/// stepping over an ASCII character found at byte offset r: the next byte is a boundary and the next char index
pub proof fn lemma_step_ascii(s: &str, r: int, c: char)
    requires 0 <= r <= s.spec_bytes().len(), is_char_boundary(s.spec_bytes(), r), 0 <= cidx(s@, r) < s@.len(), s@[cidx(s@, r)] == c, (c as u32) < 128
    ensures is_char_boundary(s.spec_bytes(), r + 1), r + 1 <= s.spec_bytes().len(), cidx(s@, r + 1) == cidx(s@, r) + 1
{
    let i = cidx(s@, r);
    axiom_cidx(s, r);
    assert(s@.subrange(0, i + 1) =~= s@.subrange(0, i) + seq![c]);
    lemma_encode_concat(s@.subrange(0, i), seq![c]);
    b_encode_ascii_char(c);
    assert(boff(s@, i + 1) == r + 1);
    axiom_boff_boundary(s, i + 1);
    axiom_cidx_boff(s@, i + 1);
}
/// broadcast form of lemma_first_unique (opt in with `broadcast use`): a found first occurrence is `first_idx`
pub broadcast proof fn b_first_unique(s: Seq<char>, p: Seq<char>, i: int)
    requires #[trigger] first_at(s, p, i)
    ensures first_idx(s, p) == i, contains_seq(s, p), is_sub_at(s, p, i)
{
    lemma_first_unique(s, p, i);
}
/// starts_with / ends_with a single char
pub broadcast proof fn b_sub_at_char(s: Seq<char>, c: char, i: int)
    ensures #[trigger] is_sub_at(s, seq![c], i) == (0 <= i < s.len() && s[i] == c)
{
    if 0 <= i < s.len() {
        if s[i] == c { assert(s.subrange(i, i + 1) =~= seq![c]); }
        else if is_sub_at(s, seq![c], i) { assert(s.subrange(i, i + 1)[0] == c); }
    }
}
/// an ASCII character is one byte
pub broadcast proof fn b_encode_ascii_char(c: char)
    requires (c as u32) < 128
    ensures #[trigger] encode_utf8(seq![c]).len() == 1
{
    assert(is_ascii_chars(seq![c])) by { assert forall|i: int| 0 <= i < 1 implies (#[trigger] seq![c][i] as u32) < 128 by { } }
    is_ascii_chars_encode_utf8(seq![c]);
}
/// a string that starts with an ASCII character can be cut after it (`if s.starts_with('/') { &s[1..] }`)
pub broadcast proof fn b_starts_ascii_boundary(s: &str, c: char)
    requires #[trigger] is_sub_at(s@, seq![c], 0), (c as u32) < 128
    ensures is_char_boundary(s.spec_bytes(), 1), 1 <= s.spec_bytes().len(), cidx(s@, 1) == 1, is_char_boundary(s.spec_bytes(), s.spec_bytes().len() as int)
{
    b_str_ends_boundary(s);
    assert(s@.subrange(0, 1) =~= seq![c]);
    assert(is_ascii_chars(s@.subrange(0, 1))) by { assert forall|i: int| 0 <= i < 1 implies (#[trigger] s@.subrange(0, 1)[i] as u32) < 128 by { } }
    lemma_skip_ascii(s, 1);
}
pub broadcast group group_lem { b_encode_ascii_char, b_starts_ascii_boundary, b_sub_at_char, b_asc_intro, b_slice_ok_ascii, b_slice_ascii, b_ascii_len, b_ascii_boff, b_ascii_cidx }

// ------------------------------------------------------------------ digit strings
pub open spec fn pow10(n: nat) -> nat decreases n { if n == 0 { 1 } else { 10 * pow10((n - 1) as nat) } }
/// a string of n digits denotes a number below 10^n; it is ASCII, and it is its own unsigned body
pub proof fn lemma_digits_bound(s: Seq<char>)
    requires all_digits(s)
    ensures digits_val(s) < pow10(s.len()), encode_utf8(s).len() == s.len(), unsigned_body(s) == s, is_ascii_chars(s)
    decreases s.len()
{
    assert forall|i: int| 0 <= i < s.len() implies (#[trigger] s[i] as u32) < 128 by { assert(ascii_digit(s[i])); }
    is_ascii_chars_encode_utf8(s);
    if s.len() > 0 {
        assert(ascii_digit(s[0]));
        let t = s.drop_last();
        assert forall|i: int| 0 <= i < t.len() implies ascii_digit(#[trigger] t[i]) by { assert(t[i] == s[i]); }
        lemma_digits_bound(t);
        assert(ascii_digit(s.last()));
        assert(dval(s.last()) <= 9);
    }
}
pub proof fn lemma_pow10_small()
    ensures pow10(0) == 1, pow10(1) == 10, pow10(2) == 100, pow10(3) == 1000, pow10(4) == 10000, pow10(5) == 100000
{ reveal_with_fuel(pow10, 7); }
pub proof fn lemma_digits_val_1(s: Seq<char>)
    requires s.len() == 1
    ensures digits_val(s) == dval(s[0])
{
    reveal_with_fuel(digits_val, 3);
    assert(s.drop_last().len() == 0);
}
pub proof fn lemma_digits_val_2(s: Seq<char>)
    requires s.len() == 2
    ensures digits_val(s) == dval(s[0]) * 10 + dval(s[1])
{
    lemma_digits_val_1(s.drop_last());
    assert(s.drop_last()[0] == s[0]);
}
pub proof fn lemma_digits_val_3(s: Seq<char>)
    requires s.len() == 3
    ensures digits_val(s) == dval(s[0]) * 100 + dval(s[1]) * 10 + dval(s[2])
{
    lemma_digits_val_2(s.drop_last());
    assert(s.drop_last()[0] == s[0]);
    assert(s.drop_last()[1] == s[1]);
}
pub proof fn lemma_digits_val_4(s: Seq<char>)
    requires s.len() == 4
    ensures digits_val(s) == dval(s[0]) * 1000 + dval(s[1]) * 100 + dval(s[2]) * 10 + dval(s[3])
{
    lemma_digits_val_3(s.drop_last());
    assert(s.drop_last()[0] == s[0]);
    assert(s.drop_last()[1] == s[1]);
    assert(s.drop_last()[2] == s[2]);
}


pub open spec fn d2(s: Seq<char>, i: int) -> int { (dval(s[i]) * 10 + dval(s[i + 1])) as int }
pub open spec fn d4(s: Seq<char>, i: int) -> int { (dval(s[i]) * 1000 + dval(s[i + 1]) * 100 + dval(s[i + 2]) * 10 + dval(s[i + 3])) as int }

pub proof fn lemma_all_digits_sub(s: Seq<char>, a: int, b: int)
    requires all_digits(s), 0 <= a <= b <= s.len()
    ensures all_digits(s.subrange(a, b))
{
    assert forall|i: int| 0 <= i < b - a implies ascii_digit(#[trigger] s.subrange(a, b)[i]) by { assert(s.subrange(a, b)[i] == s[a + i]); }
}
/// parsing a two-digit component of an all-digit string
pub broadcast proof fn b_parse_sub2(s: Seq<char>, a: int, b: int, max: nat)
    requires all_digits(s), 0 <= a, b == a + 2, b <= s.len(), max >= 99
    ensures #[trigger] parse_unsigned_spec(s.subrange(a, b), max) == Some(d2(s, a) as nat), 0 <= d2(s, a) <= 99
{
    let t = s.subrange(a, b);
    lemma_all_digits_sub(s, a, b);
    lemma_digits_val_2(t);
    assert(t[0] == s[a] && t[1] == s[a + 1]);
    assert(ascii_digit(t[0]) && ascii_digit(t[1]));
}
pub broadcast proof fn b_parse_sub4(s: Seq<char>, a: int, b: int, max: nat)
    requires all_digits(s), 0 <= a, b == a + 4, b <= s.len(), max >= 9999
    ensures #[trigger] parse_unsigned_spec(s.subrange(a, b), max) == Some(d4(s, a) as nat), 0 <= d4(s, a) <= 9999
{
    let t = s.subrange(a, b);
    lemma_all_digits_sub(s, a, b);
    lemma_digits_val_4(t);
    assert(t[0] == s[a] && t[1] == s[a + 1] && t[2] == s[a + 2] && t[3] == s[a + 3]);
    assert(ascii_digit(t[0]) && ascii_digit(t[1]) && ascii_digit(t[2]) && ascii_digit(t[3]));
}
pub broadcast proof fn b_parse_i32_sub4(s: Seq<char>, a: int, b: int)
    requires all_digits(s), 0 <= a, b == a + 4, b <= s.len()
    ensures #[trigger] parse_i32_spec(s.subrange(a, b)) == Some(d4(s, a)), 0 <= d4(s, a) <= 9999
{
    let t = s.subrange(a, b);
    lemma_all_digits_sub(s, a, b);
    lemma_digits_val_4(t);
    assert(t[0] == s[a] && t[1] == s[a + 1] && t[2] == s[a + 2] && t[3] == s[a + 3]);
    assert(ascii_digit(t[0]) && ascii_digit(t[1]) && ascii_digit(t[2]) && ascii_digit(t[3]));
}
pub broadcast group group_digits { b_parse_sub2, b_parse_sub4, b_parse_i32_sub4 }

// ---------------- str::lines / str::split('\n') / join composition (C02 at field level for the multi-line fields)
pub open spec fn no_nl(l: Seq<char>) -> bool { forall|i: int| 0 <= i < l.len() ==> #[trigger] l[i] != '\n' }
pub open spec fn no_crlf(l: Seq<char>) -> bool { forall|i: int| 0 <= i < l.len() ==> #[trigger] l[i] != '\n' && l[i] != '\r' }
pub open spec fn line_views(v: Seq<String>) -> Seq<Seq<char>> { Seq::new(v.len(), |i: int| v[i]@) }
/// the text a serialiser writes for a list of lines: the lines joined by `sep`
pub open spec fn join_chars(ss: Seq<Seq<char>>, sep: Seq<char>) -> Seq<char>
    decreases ss.len()
{
    if ss.len() == 0 { Seq::<char>::empty() } else if ss.len() == 1 { ss[0] } else { join_chars(ss.drop_last(), sep) + sep + ss.last() }
}
pub proof fn lemma_join_line_views(v: Seq<String>, sep: Seq<char>)
    ensures join_spec(v, sep) == join_chars(line_views(v), sep)
    decreases v.len()
{
    if v.len() >= 2 {
        lemma_join_line_views(v.drop_last(), sep);
        assert(line_views(v).drop_last() =~= line_views(v.drop_last()));
    }
}
/// lines as a parser may store them if the text is to be read back by str::lines: not empty, no line feed inside, and no
/// carriage return at the end of a line that is followed by another one (str::lines would strip it)
pub open spec fn clean_lines(v: Seq<Seq<char>>) -> bool {
    forall|i: int| 0 <= i < v.len() ==> (#[trigger] v[i]).len() >= 1 && no_nl(v[i]) && (i < v.len() - 1 ==> v[i].last() != '\r')
}
pub proof fn lemma_nl_pos_prefix(a: Seq<char>, b: Seq<char>)
    requires no_nl(a)
    ensures nl_pos(a + seq!['\n'] + b) == a.len(), nl_pos(a) == a.len()
    decreases a.len()
{
    let s = a + seq!['\n'] + b;
    if a.len() == 0 {
        assert(s[0] == '\n');
    } else {
        assert(s[0] == a[0]);
        assert(a[0] != '\n');
        let a1 = a.subrange(1, a.len() as int);
        assert(s.subrange(1, s.len() as int) =~= a1 + seq!['\n'] + b);
        assert(no_nl(a1)) by { assert forall|i: int| 0 <= i < a1.len() implies #[trigger] a1[i] != '\n' by { assert(a1[i] == a[i + 1]); } }
        lemma_nl_pos_prefix(a1, b);
    }
}
/// one step of str::lines: a first line without line feed, then a line feed, then the rest
pub proof fn lemma_lines_cons(a: Seq<char>, b: Seq<char>)
    requires no_nl(a)
    ensures lines_spec(a + seq!['\n'] + b) == seq![strip_cr(a)] + lines_spec(b)
{
    let s = a + seq!['\n'] + b;
    lemma_nl_pos_prefix(a, b);
    reveal_with_fuel(lines_spec, 1);
    assert(s.subrange(0, a.len() as int) =~= a);
    assert(s.subrange(a.len() as int + 1, s.len() as int) =~= b);
}
pub proof fn lemma_lines_single(a: Seq<char>)
    requires no_nl(a), a.len() >= 1
    ensures lines_spec(a) == seq![a]
{
    lemma_nl_pos_prefix(a, Seq::<char>::empty());
    reveal_with_fuel(lines_spec, 1);
}
pub proof fn lemma_join_left(v: Seq<Seq<char>>, sep: Seq<char>)
    requires v.len() >= 2
    ensures join_chars(v, sep) =~= v[0] + sep + join_chars(v.subrange(1, v.len() as int), sep)
    decreases v.len()
{
    let t = v.subrange(1, v.len() as int);
    if v.len() == 2 {
        assert(v.drop_last().len() == 1);
        assert(t.len() == 1);
        assert(join_chars(v.drop_last(), sep) == v[0]);
        assert(join_chars(t, sep) == v[1]);
    } else {
        let d = v.drop_last();
        lemma_join_left(d, sep);
        assert(d.subrange(1, d.len() as int) =~= t.drop_last());
        assert(t.last() == v.last());
        assert(d[0] == v[0]);
        assert(join_chars(t, sep) == join_chars(t.drop_last(), sep) + sep + t.last());
    }
}
/// reading back (str::lines) the lines joined with line feeds gives the lines
pub proof fn lemma_lines_join(v: Seq<Seq<char>>)
    requires v.len() >= 1, clean_lines(v)
    ensures lines_spec(join_chars(v, seq!['\n'])) =~= v
    decreases v.len()
{
    if v.len() == 1 {
        lemma_lines_single(v[0]);
    } else {
        let t = v.subrange(1, v.len() as int);
        lemma_join_left(v, seq!['\n']);
        assert(clean_lines(t)) by { assert forall|i: int| 0 <= i < t.len() implies (#[trigger] t[i]).len() >= 1 && no_nl(t[i]) && (i < t.len() - 1 ==> t[i].last() != '\r') by { assert(t[i] == v[i + 1]); } }
        lemma_lines_join(t);
        lemma_lines_cons(v[0], join_chars(t, seq!['\n']));
        assert(strip_cr(v[0]) == v[0]);
        assert(v =~= seq![v[0]] + t);
    }
}
/// the form used by the field units: every written line is non-empty and free of CR / LF
pub proof fn lemma_lines_join_crlf(v: Seq<Seq<char>>)
    requires v.len() >= 1, forall|i: int| 0 <= i < v.len() ==> (#[trigger] v[i]).len() >= 1 && no_crlf(v[i])
    ensures lines_spec(join_chars(v, seq!['\n'])) =~= v
{
    assert(clean_lines(v)) by {
        assert forall|i: int| 0 <= i < v.len() implies (#[trigger] v[i]).len() >= 1 && no_nl(v[i]) && (i < v.len() - 1 ==> v[i].last() != '\r') by {
            let l = v[i];
            assert(no_crlf(l));
            assert(l.last() == l[l.len() - 1]);
        }
    }
    lemma_lines_join(v);
}

pub proof fn lemma_split_cons(a: Seq<char>, b: Seq<char>)
    requires no_nl(a)
    ensures split_nl(a + seq!['\n'] + b) == seq![a] + split_nl(b)
{
    let s = a + seq!['\n'] + b;
    lemma_nl_pos_prefix(a, b);
    reveal_with_fuel(split_nl, 1);
    assert(s.subrange(0, a.len() as int) =~= a);
    assert(s.subrange(a.len() as int + 1, s.len() as int) =~= b);
}
pub proof fn lemma_split_single(a: Seq<char>)
    requires no_nl(a)
    ensures split_nl(a) == seq![a]
{
    lemma_nl_pos_prefix(a, Seq::<char>::empty());
    reveal_with_fuel(split_nl, 1);
}
/// reading back (str::split('\n')) the lines joined with line feeds gives the lines (empty lines included)
pub proof fn lemma_split_join(v: Seq<Seq<char>>)
    requires v.len() >= 1, forall|i: int| 0 <= i < v.len() ==> no_nl(#[trigger] v[i])
    ensures split_nl(join_chars(v, seq!['\n'])) =~= v
    decreases v.len()
{
    if v.len() == 1 {
        lemma_split_single(v[0]);
    } else {
        let t = v.subrange(1, v.len() as int);
        lemma_join_left(v, seq!['\n']);
        assert forall|i: int| 0 <= i < t.len() implies no_nl(#[trigger] t[i]) by { assert(t[i] == v[i + 1]); }
        lemma_split_join(t);
        lemma_split_cons(v[0], join_chars(t, seq!['\n']));
        assert(v =~= seq![v[0]] + t);
    }
}

/// a text that is not empty has at least one line
pub proof fn lemma_lines_len(s: Seq<char>)
    requires s.len() > 0
    ensures lines_spec(s).len() >= 1
{
    reveal_with_fuel(lines_spec, 1);
}

/// an occurrence implies a first occurrence
pub proof fn lemma_least_occurrence(s: Seq<char>, p: Seq<char>, i: int)
    requires is_sub_at(s, p, i)
    ensures exists|k: int| first_at(s, p, k)
    decreases i
{
    reveal(first_at);
    if exists|j: int| 0 <= j < i && is_sub_at(s, p, j) {
        let j = choose|j: int| 0 <= j < i && is_sub_at(s, p, j);
        lemma_least_occurrence(s, p, j);
    } else {
        assert(first_at(s, p, i));
    }
}
pub proof fn lemma_first_idx(s: Seq<char>, p: Seq<char>)
    requires contains_seq(s, p)
    ensures first_at(s, p, first_idx(s, p)), is_sub_at(s, p, first_idx(s, p))
{
    reveal(contains_seq);
    let i = choose|i: int| is_sub_at(s, p, i);
    lemma_least_occurrence(s, p, i);
    let k = choose|k: int| first_at(s, p, k);
    lemma_first_unique(s, p, k);
}

/// a text has at most as many lines as characters
pub proof fn lemma_nl_pos_bound(s: Seq<char>)
    ensures 0 <= nl_pos(s) <= s.len()
    decreases s.len()
{
    if s.len() > 0 && s[0] != '\n' { lemma_nl_pos_bound(s.subrange(1, s.len() as int)); }
}
pub proof fn lemma_lines_len_le(s: Seq<char>)
    ensures lines_spec(s).len() <= s.len()
    decreases s.len()
{
    reveal_with_fuel(lines_spec, 1);
    if s.len() > 0 {
        lemma_nl_pos_bound(s);
        let i = nl_pos(s);
        if i < s.len() { lemma_lines_len_le(s.subrange(i + 1, s.len() as int)); }
    }
}

} // verus!
} // mod lem
