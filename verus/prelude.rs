// =====================================================================================
// TRUSTED PRELUDE  (every item in this file is an ASSUMPTION, listed in evidence.trusted_base)
//
//  * `vx::*` wrappers: body is the original std call, `requires` is std's documented panic
//    condition, `ensures` is std's documented result.  The extractor rewrites `recv.m(args)` to
//    `vx::m(&recv, args)` (purely syntactic, reported per run).
//  * assume_specification for std functions that vstd leaves unspecified.
//  * broadcast axioms: String/str equality is view equality; Unicode predicates restricted to
//    ASCII are the ASCII classes.
//  * `chrono` stand-in: the two constructors the library calls, with the proleptic Gregorian
//    calendar as assumed contract.
// =====================================================================================
#![allow(unused_imports, dead_code, unused_variables, unused_mut, unused_parens, non_snake_case, unused_assignments, unreachable_code, non_camel_case_types, non_upper_case_globals)]
use vstd::prelude::*;
use vstd::string::*;
use vstd::string::StringSliceAdditionalSpecFns;

pub mod vx {
use vstd::prelude::*;
use vstd::string::*;
use vstd::string::StringSliceAdditionalSpecFns;
verus! {

// ---------------------------------------------------------------- char classes
pub open spec fn ascii_digit(c: char) -> bool { '0' <= c && c <= '9' }
pub open spec fn ascii_upper(c: char) -> bool { 'A' <= c && c <= 'Z' }
pub open spec fn ascii_lower(c: char) -> bool { 'a' <= c && c <= 'z' }
pub open spec fn ascii_alpha(c: char) -> bool { ascii_upper(c) || ascii_lower(c) }
pub open spec fn ascii_alnum(c: char) -> bool { ascii_alpha(c) || ascii_digit(c) }
pub open spec fn is_ascii_c(c: char) -> bool { (c as u32) < 128 }

pub uninterp spec fn uni_alphabetic(c: char) -> bool;
pub uninterp spec fn uni_numeric(c: char) -> bool;
pub uninterp spec fn uni_uppercase(c: char) -> bool;
pub uninterp spec fn uni_lowercase(c: char) -> bool;
pub open spec fn uni_alphanumeric(c: char) -> bool { uni_alphabetic(c) || uni_numeric(c) }

// Unicode predicates agree with the ASCII classes on ASCII (Unicode character database, stable)
pub broadcast axiom fn axiom_uni_alphabetic_ascii(c: char)
    requires is_ascii_c(c)
    ensures #[trigger] uni_alphabetic(c) == ascii_alpha(c);
pub broadcast axiom fn axiom_uni_numeric_ascii(c: char)
    requires is_ascii_c(c)
    ensures #[trigger] uni_numeric(c) == ascii_digit(c);
pub broadcast axiom fn axiom_uni_uppercase_ascii(c: char)
    requires is_ascii_c(c)
    ensures #[trigger] uni_uppercase(c) == ascii_upper(c);
pub broadcast axiom fn axiom_uni_lowercase_ascii(c: char)
    requires is_ascii_c(c)
    ensures #[trigger] uni_lowercase(c) == ascii_lower(c);

#[verifier::when_used_as_spec(uni_alphabetic)]
pub assume_specification[ char::is_alphabetic ](c: char) -> (r: bool) ensures r == uni_alphabetic(c);
#[verifier::when_used_as_spec(uni_numeric)]
pub assume_specification[ char::is_numeric ](c: char) -> (r: bool) ensures r == uni_numeric(c);
#[verifier::when_used_as_spec(uni_alphanumeric)]
pub assume_specification[ char::is_alphanumeric ](c: char) -> (r: bool) ensures r == uni_alphanumeric(c);
#[verifier::when_used_as_spec(uni_uppercase)]
pub assume_specification[ char::is_uppercase ](c: char) -> (r: bool) ensures r == uni_uppercase(c);
#[verifier::when_used_as_spec(uni_lowercase)]
pub assume_specification[ char::is_lowercase ](c: char) -> (r: bool) ensures r == uni_lowercase(c);

pub open spec fn ref_ascii_digit(c: &char) -> bool { ascii_digit(*c) }
pub open spec fn ref_ascii_upper(c: &char) -> bool { ascii_upper(*c) }
pub open spec fn ref_ascii_lower(c: &char) -> bool { ascii_lower(*c) }
pub open spec fn ref_ascii_alpha(c: &char) -> bool { ascii_alpha(*c) }
pub open spec fn ref_ascii_alnum(c: &char) -> bool { ascii_alnum(*c) }
pub open spec fn ref_is_ascii_c(c: &char) -> bool { is_ascii_c(*c) }
#[verifier::when_used_as_spec(ref_ascii_digit)]
pub assume_specification[ char::is_ascii_digit ](c: &char) -> (r: bool) ensures r == ascii_digit(*c);
#[verifier::when_used_as_spec(ref_ascii_upper)]
pub assume_specification[ char::is_ascii_uppercase ](c: &char) -> (r: bool) ensures r == ascii_upper(*c);
#[verifier::when_used_as_spec(ref_ascii_lower)]
pub assume_specification[ char::is_ascii_lowercase ](c: &char) -> (r: bool) ensures r == ascii_lower(*c);
#[verifier::when_used_as_spec(ref_ascii_alpha)]
pub assume_specification[ char::is_ascii_alphabetic ](c: &char) -> (r: bool) ensures r == ascii_alpha(*c);
#[verifier::when_used_as_spec(ref_ascii_alnum)]
pub assume_specification[ char::is_ascii_alphanumeric ](c: &char) -> (r: bool) ensures r == ascii_alnum(*c);
pub open spec fn ascii_ws(c: char) -> bool { c == ' ' || c == '\t' || c == '\n' || c == '\x0C' || c == '\r' }
pub open spec fn ref_ascii_ws(c: &char) -> bool { ascii_ws(*c) }
#[verifier::when_used_as_spec(ref_ascii_ws)]
pub assume_specification[ char::is_ascii_whitespace ](c: &char) -> (r: bool) ensures r == ascii_ws(*c);
#[verifier::when_used_as_spec(ref_is_ascii_c)]
pub assume_specification[ char::is_ascii ](c: &char) -> (r: bool) ensures r == is_ascii_c(*c);

// ---------------------------------------------------------------- String / str equality
pub broadcast axiom fn axiom_string_eq_str(a: String, b: &str)
    ensures #[trigger] <String as vstd::std_specs::cmp::PartialEqSpec<str>>::eq_spec(&a, b) == (a@ == b@);
pub broadcast axiom fn axiom_string_obeys_eq_str()
    ensures #[trigger] <String as vstd::std_specs::cmp::PartialEqSpec<str>>::obeys_eq_spec();
pub broadcast axiom fn axiom_string_eq_refstr(a: String, b: &str)
    ensures #[trigger] <String as vstd::std_specs::cmp::PartialEqSpec<&str>>::eq_spec(&a, &b) == (a@ == b@);
pub broadcast axiom fn axiom_string_obeys_eq_refstr()
    ensures #[trigger] <String as vstd::std_specs::cmp::PartialEqSpec<&'static str>>::obeys_eq_spec();
pub broadcast axiom fn axiom_str_eq_string(a: &str, b: String)
    ensures #[trigger] <str as vstd::std_specs::cmp::PartialEqSpec<String>>::eq_spec(a, &b) == (a@ == b@);
pub broadcast axiom fn axiom_str_obeys_eq_string()
    ensures #[trigger] <str as vstd::std_specs::cmp::PartialEqSpec<String>>::obeys_eq_spec();
pub broadcast axiom fn axiom_refstr_eq_string(a: &str, b: String)
    ensures #[trigger] <&str as vstd::std_specs::cmp::PartialEqSpec<String>>::eq_spec(&a, &b) == (a@ == b@);
pub broadcast axiom fn axiom_refstr_obeys_eq_string()
    ensures #[trigger] <&'static str as vstd::std_specs::cmp::PartialEqSpec<String>>::obeys_eq_spec();
pub broadcast axiom fn axiom_string_eq_string(a: String, b: String)
    ensures #[trigger] <String as vstd::std_specs::cmp::PartialEqSpec<String>>::eq_spec(&a, &b) == (a@ == b@);
pub broadcast axiom fn axiom_string_obeys_eq_string()
    ensures #[trigger] <String as vstd::std_specs::cmp::PartialEqSpec<String>>::obeys_eq_spec();

// a str never exceeds isize::MAX bytes (Rust allocation invariant); vstd's `str::len` spec is clipped to usize
pub broadcast axiom fn axiom_str_len_bound(s: &str)
    ensures #[trigger] s.spec_bytes().len() <= isize::MAX as nat;
pub broadcast axiom fn axiom_chars_le_bytes(s: &str)
    ensures #[trigger] s@.len() <= s.spec_bytes().len();

pub broadcast axiom fn axiom_encode_len(s: Seq<char>)
    ensures #[trigger] vstd::utf8::encode_utf8(s).len() >= s.len();

/// `<&str as ToString>::to_string` (Display of a &str is the string itself)
pub broadcast axiom fn axiom_refstr_to_string(t: &&str, res: String)
    ensures #[trigger] vstd::string::to_string_from_display_ensures::<&str>(t, res) <==> res@ == (*t)@;
/// `char::to_string` (Display of a char is the one-character string)
pub broadcast axiom fn axiom_char_to_string(t: &char, res: String)
    ensures #[trigger] vstd::string::to_string_from_display_ensures::<char>(t, res) <==> res@ == seq![*t];
pub broadcast group group_vx_axioms {
    axiom_char_to_string, axiom_refstr_to_string, axiom_str_len_bound, axiom_chars_le_bytes, axiom_encode_len,
    axiom_uni_alphabetic_ascii, axiom_uni_numeric_ascii, axiom_uni_uppercase_ascii, axiom_uni_lowercase_ascii,
    axiom_string_eq_str, axiom_string_obeys_eq_str, axiom_string_eq_refstr, axiom_string_obeys_eq_refstr,
    axiom_str_eq_string, axiom_str_obeys_eq_string, axiom_refstr_eq_string, axiom_refstr_obeys_eq_string,
    axiom_string_eq_string, axiom_string_obeys_eq_string,
}

pub assume_specification[ String::len ](s: &String) -> (r: usize)
    ensures r == vstd::utf8::encode_utf8(s@).len();

/// `Option::is_some_and`
pub assume_specification<T, F: FnOnce(T) -> bool>[ Option::<T>::is_some_and ](o: Option<T>, f: F) -> (r: bool)
    requires o.is_some() ==> call_requires(f, (o.unwrap(),)),
    ensures o.is_none() ==> !r, o.is_some() ==> call_ensures(f, (o.unwrap(),), r);
/// `Option::or`
pub assume_specification<T>[ Option::<T>::or ](a: Option<T>, b: Option<T>) -> (r: Option<T>)
    ensures r == (if a.is_some() { a } else { b });
/// `iter.take(n).collect()`: the first n elements (all of them when there are fewer)
#[verifier::external_body]
pub fn vec_take<T>(v: Vec<T>, n: usize) -> (r: Vec<T>)
    ensures r@ == v@.subrange(0, if (n as int) < v@.len() { n as int } else { v@.len() as int })
{ v.into_iter().take(n).collect() }
/// `Result::or_else`
pub assume_specification<T, E, F, O: FnOnce(E) -> Result<T, F>>[ Result::<T, E>::or_else ](r0: Result<T, E>, op: O) -> (r: Result<T, F>)
    requires r0.is_err() ==> call_requires(op, (r0->Err_0,)),
    ensures (match r0 { Ok(v) => r == Result::<T, F>::Ok(v), Err(e) => call_ensures(op, (e,), r) });
/// `Result::unwrap_or`
pub assume_specification<T, E>[ Result::<T, E>::unwrap_or ](r0: Result<T, E>, d: T) -> (r: T)
    ensures r == (match r0 { Ok(v) => v, Err(_) => d });
/// `String::truncate(n)`: no effect beyond the end; panics unless `n` is a char boundary
pub assume_specification[ String::truncate ](s: &mut String, n: usize)
    requires n as int > vstd::utf8::encode_utf8(old(s)@).len() || exists|k: int| 0 <= k <= old(s)@.len() && #[trigger] boff(old(s)@, k) == n as int,
    ensures
        n as int >= vstd::utf8::encode_utf8(old(s)@).len() ==> final(s)@ == old(s)@,
        forall|k: int| 0 <= k <= old(s)@.len() && #[trigger] boff(old(s)@, k) == n as int ==> final(s)@ == old(s)@.subrange(0, k);

// ---------------------------------------------------------------- str slicing
/// r is the byte sub-range [a,b) of s
pub open spec fn is_slice(s: &str, a: int, b: int, r: &str) -> bool {
    r.spec_bytes() == s.spec_bytes().subrange(a, b)
}
pub open spec fn slice_ok(s: &str, a: int, b: int) -> bool {
    0 <= a <= b <= s.spec_bytes().len()
    && vstd::utf8::is_char_boundary(s.spec_bytes(), a)
    && vstd::utf8::is_char_boundary(s.spec_bytes(), b)
}
/// `next()` of an iterator over collected pairs, with an explicit cursor
pub fn pairs_next(v: &Vec<(usize, char)>, k: &mut usize) -> (r: Option<(usize, char)>)
    ensures (old(k) < v@.len()) ==> (r == Some(v@[*old(k) as int]) && *final(k) == *old(k) + 1),
            (old(k) >= v@.len()) ==> (r.is_none() && *final(k) == *old(k))
{
    if *k < v.len() { let x = v[*k]; *k = *k + 1; Some(x) } else { None }
}
/// `s.chars().take(n).collect::<String>()`: the first n characters (all of them when there are fewer); never panics
#[verifier::external_body]
pub fn str_take_chars(s: &str, n: usize) -> (r: String)
    ensures r@ == s@.subrange(0, if (n as int) < s@.len() { n as int } else { s@.len() as int })
{ s.chars().take(n).collect::<String>() }
/// `s.get(a..b)`: the slice when the range is in bounds and on character boundaries, None otherwise (never panics)
#[verifier::external_body]
pub fn str_get<'a>(s: &'a str, a: usize, b: usize) -> (r: Option<&'a str>)
    ensures r.is_some() == slice_ok(s, a as int, b as int), r.is_some() ==> is_slice(s, a as int, b as int, r.unwrap())
{ s.get(a..b) }
#[verifier::external_body]
pub fn str_slice<'a>(s: &'a str, a: usize, b: usize) -> (r: &'a str)
    requires slice_ok(s, a as int, b as int)
    ensures is_slice(s, a as int, b as int, r)
{ &s[a..b] }
#[verifier::external_body]
pub fn str_slice_from<'a>(s: &'a str, a: usize) -> (r: &'a str)
    requires slice_ok(s, a as int, s.spec_bytes().len() as int)
    ensures is_slice(s, a as int, s.spec_bytes().len() as int, r)
{ &s[a..] }
#[verifier::external_body]
pub fn str_slice_to<'a>(s: &'a str, b: usize) -> (r: &'a str)
    requires slice_ok(s, 0, b as int)
    ensures is_slice(s, 0, b as int, r)
{ &s[..b] }

// ---------------------------------------------------------------- integer parsing (core::num FromStr)
pub open spec fn all_digits(s: Seq<char>) -> bool { forall|i: int| 0 <= i < s.len() ==> ascii_digit(#[trigger] s[i]) }
pub open spec fn dval(c: char) -> nat { (c as u32 - '0' as u32) as nat }
pub open spec fn digits_val(s: Seq<char>) -> nat
    decreases s.len()
{
    if s.len() == 0 { 0 } else { digits_val(s.drop_last()) * 10 + dval(s.last()) }
}
/// unsigned FromStr: optional leading '+', then one or more ASCII digits, no overflow
pub open spec fn unsigned_body(s: Seq<char>) -> Seq<char> {
    if s.len() > 0 && s[0] == '+' { s.subrange(1, s.len() as int) } else { s }
}
pub open spec fn parse_unsigned_spec(s: Seq<char>, max: nat) -> Option<nat> {
    let b = unsigned_body(s);
    if b.len() > 0 && all_digits(b) && digits_val(b) <= max { Some(digits_val(b)) } else { None }
}
#[verifier::external_type_specification]
#[verifier::external_body]
pub struct ExParseIntError(core::num::ParseIntError);
#[verifier::external_type_specification]
#[verifier::external_body]
pub struct ExParseFloatError(core::num::ParseFloatError);

#[verifier::external_body]
pub fn parse_u32(s: &str) -> (r: Result<u32, core::num::ParseIntError>)
    ensures r.is_ok() == parse_unsigned_spec(s@, u32::MAX as nat).is_some(),
            r.is_ok() ==> r.unwrap() as nat == parse_unsigned_spec(s@, u32::MAX as nat).unwrap()
{ s.parse::<u32>() }
#[verifier::external_body]
pub fn parse_u8(s: &str) -> (r: Result<u8, core::num::ParseIntError>)
    ensures r.is_ok() == parse_unsigned_spec(s@, u8::MAX as nat).is_some(),
            r.is_ok() ==> r.unwrap() as nat == parse_unsigned_spec(s@, u8::MAX as nat).unwrap()
{ s.parse::<u8>() }
#[verifier::external_body]
pub fn parse_u16(s: &str) -> (r: Result<u16, core::num::ParseIntError>)
    ensures r.is_ok() == parse_unsigned_spec(s@, u16::MAX as nat).is_some(),
            r.is_ok() ==> r.unwrap() as nat == parse_unsigned_spec(s@, u16::MAX as nat).unwrap()
{ s.parse::<u16>() }
#[verifier::external_body]
pub fn parse_usize(s: &str) -> (r: Result<usize, core::num::ParseIntError>)
    ensures r.is_ok() == parse_unsigned_spec(s@, usize::MAX as nat).is_some(),
            r.is_ok() ==> r.unwrap() as nat == parse_unsigned_spec(s@, usize::MAX as nat).unwrap()
{ s.parse::<usize>() }
/// signed FromStr: optional leading '+' or '-', then one or more ASCII digits, no overflow
pub open spec fn parse_i32_spec(s: Seq<char>) -> Option<int> {
    if s.len() > 0 && s[0] == '-' {
        let b = s.subrange(1, s.len() as int);
        if b.len() > 0 && all_digits(b) && digits_val(b) <= 2147483648 { Some(-(digits_val(b) as int)) } else { None }
    } else {
        let b = unsigned_body(s);
        if b.len() > 0 && all_digits(b) && digits_val(b) <= 2147483647 { Some(digits_val(b) as int) } else { None }
    }
}
#[verifier::external_body]
pub fn parse_i32(s: &str) -> (r: Result<i32, core::num::ParseIntError>)
    ensures r.is_ok() == parse_i32_spec(s@).is_some(),
            r.is_ok() ==> r.unwrap() as int == parse_i32_spec(s@).unwrap()
{ s.parse::<i32>() }

// f64 parsing: grammar of core::num::dec2flt (documented at f64::from_str): the result value is left
// uninterpreted (machine floating point is not modelled); only the accepted *shape* is specified.
pub uninterp spec fn f64_grammar(s: Seq<char>) -> bool;
pub uninterp spec fn f64_value(s: Seq<char>) -> f64;
#[verifier::external_body]
pub fn parse_f64(s: &str) -> (r: Result<f64, core::num::ParseFloatError>)
    ensures r.is_ok() == f64_grammar(s@), r.is_ok() ==> r.unwrap() == f64_value(s@)
{ s.parse::<f64>() }

// ---------------------------------------------------------------- general UTF-8 offsets (axiomatised facts about UTF-8)
/// byte offset of char index i
pub open spec fn boff(s: Seq<char>, i: int) -> int { vstd::utf8::encode_utf8(s.subrange(0, i)).len() as int }
/// char index of a byte offset that is a char boundary
pub uninterp spec fn cidx(s: Seq<char>, b: int) -> int;
pub broadcast axiom fn axiom_boff_boundary(s: &str, i: int)
    requires 0 <= i <= s@.len()
    ensures vstd::utf8::is_char_boundary(s.spec_bytes(), #[trigger] boff(s@, i)), 0 <= boff(s@, i) <= s.spec_bytes().len(),
            i <= boff(s@, i), boff(s@, i) - i <= s.spec_bytes().len() - s@.len();
pub broadcast axiom fn axiom_boff_ends(s: &str)
    ensures #[trigger] boff(s@, 0) == 0, boff(s@, s@.len() as int) == s.spec_bytes().len();
pub broadcast axiom fn axiom_boff_mono(s: Seq<char>, i: int, j: int)
    requires 0 <= i <= j <= s.len()
    ensures #[trigger] boff(s, i) + (j - i) <= #[trigger] boff(s, j);
pub broadcast axiom fn axiom_cidx(s: &str, b: int)
    requires 0 <= b <= s.spec_bytes().len(), vstd::utf8::is_char_boundary(s.spec_bytes(), b)
    ensures 0 <= #[trigger] cidx(s@, b) <= s@.len(), boff(s@, cidx(s@, b)) == b;
pub broadcast axiom fn axiom_cidx_boff(s: Seq<char>, i: int)
    requires 0 <= i <= s.len()
    ensures #[trigger] cidx(s, boff(s, i)) == i;
/// slicing between char boundaries is slicing the char sequence
pub broadcast axiom fn axiom_slice_chars(s: &str, a: int, b: int, r: &str)
    requires #[trigger] is_slice(s, a, b, r), slice_ok(s, a, b)
    ensures r@ == s@.subrange(cidx(s@, a), cidx(s@, b)), cidx(s@, a) <= cidx(s@, b);
/// a char boundary of a suffix slice is a char boundary of the whole string (a boundary is a property of one byte)
pub broadcast axiom fn axiom_boundary_suffix(s: &str, a: int, t: &str, i: int)
    requires #[trigger] is_slice(s, a, s.spec_bytes().len() as int, t), slice_ok(s, a, s.spec_bytes().len() as int), 0 <= i <= t.spec_bytes().len()
    ensures #[trigger] vstd::utf8::is_char_boundary(t.spec_bytes(), i) == vstd::utf8::is_char_boundary(s.spec_bytes(), a + i), t.spec_bytes().len() == s.spec_bytes().len() - a;
pub broadcast group group_utf8 { axiom_boff_boundary, axiom_boff_ends, axiom_boff_mono, axiom_cidx, axiom_cidx_boff, axiom_slice_chars }

// ---------------------------------------------------------------- str searching / trimming (std::str docs)
pub open spec fn is_sub_at(s: Seq<char>, p: Seq<char>, i: int) -> bool {
    0 <= i && i + p.len() <= s.len() && s.subrange(i, i + p.len()) == p
}
#[verifier::opaque]
pub open spec fn contains_seq(s: Seq<char>, p: Seq<char>) -> bool { exists|i: int| is_sub_at(s, p, i) }
#[verifier::opaque]
pub open spec fn first_at(s: Seq<char>, p: Seq<char>, i: int) -> bool {
    is_sub_at(s, p, i) && forall|j: int| 0 <= j < i ==> !is_sub_at(s, p, j)
}
#[verifier::opaque]
pub open spec fn last_at(s: Seq<char>, p: Seq<char>, i: int) -> bool {
    is_sub_at(s, p, i) && forall|j: int| i < j <= s.len() ==> !is_sub_at(s, p, j)
}
pub open spec fn ws(c: char) -> bool { vstd::std_specs::char::is_white_space(c) }
/// number of leading chars satisfying f
pub open spec fn lead_count(s: Seq<char>, f: spec_fn(char) -> bool) -> int
    decreases s.len()
{
    if s.len() > 0 && f(s[0]) { 1 + lead_count(s.subrange(1, s.len() as int), f) } else { 0 }
}
pub open spec fn trail_count(s: Seq<char>, f: spec_fn(char) -> bool) -> int
    decreases s.len()
{
    if s.len() > 0 && f(s.last()) { 1 + trail_count(s.drop_last(), f) } else { 0 }
}
pub open spec fn trail_char(s: Seq<char>, c: char) -> int
    decreases s.len()
{
    if s.len() > 0 && s.last() == c { 1 + trail_char(s.drop_last(), c) } else { 0 }
}
pub open spec fn lead_char(s: Seq<char>, c: char) -> int
    decreases s.len()
{
    if s.len() > 0 && s[0] == c { 1 + lead_char(s.subrange(1, s.len() as int), c) } else { 0 }
}
/// str::trim_end_matches(c) / trim_start_matches(c) for a char pattern
pub open spec fn trim_end_char_spec(s: Seq<char>, c: char) -> Seq<char> { s.subrange(0, s.len() - trail_char(s, c)) }
pub open spec fn trim_start_char_spec(s: Seq<char>, c: char) -> Seq<char> { s.subrange(lead_char(s, c), s.len() as int) }
pub open spec fn trim_start_spec(s: Seq<char>, f: spec_fn(char) -> bool) -> Seq<char> { s.subrange(lead_count(s, f), s.len() as int) }
pub open spec fn trim_end_spec(s: Seq<char>, f: spec_fn(char) -> bool) -> Seq<char> { s.subrange(0, s.len() - trail_count(s, f)) }
pub open spec fn trim_spec(s: Seq<char>) -> Seq<char> { trim_end_spec(trim_start_spec(s, |c: char| ws(c)), |c: char| ws(c)) }
pub open spec fn replace_char_spec(s: Seq<char>, from: char, to: Seq<char>) -> Seq<char>
    decreases s.len()
{
    if s.len() == 0 { s } else if s[0] == from { to + replace_char_spec(s.subrange(1, s.len() as int), from, to) }
    else { seq![s[0]] + replace_char_spec(s.subrange(1, s.len() as int), from, to) }
}
/// index of the first '\n' of `s` (its length when there is none)
pub open spec fn nl_pos(s: Seq<char>) -> int
    decreases s.len()
{
    if s.len() == 0 { 0 } else if s[0] == '\n' { 0 } else { 1 + nl_pos(s.subrange(1, s.len() as int)) }
}
pub open spec fn strip_cr(l: Seq<char>) -> Seq<char> { if l.len() > 0 && l.last() == '\r' { l.drop_last() } else { l } }
/// str::lines() as std documents and implements it (trusted model): the text is cut after every '\n'; a piece that ends
/// with '\n' loses it and then one '\r' before it if there is one; the last piece (no '\n') is reported as it is, a
/// bare '\r' at its end included; an empty rest after the last '\n' is not reported.  Opaque: units that only need
/// "the parser's values are a function of lines(x)" never unfold it.
#[verifier::opaque]
pub open spec fn lines_spec(s: Seq<char>) -> Seq<Seq<char>>
    decreases s.len()
{
    if s.len() == 0 { Seq::<Seq<char>>::empty() }
    else {
        let i = nl_pos(s);
        if i < 0 || i >= s.len() { seq![s] }
        else { seq![strip_cr(s.subrange(0, i))] + lines_spec(s.subrange(i + 1, s.len() as int)) }
    }
}
/// the non-empty lines of `lines_spec`, in order
pub uninterp spec fn nonempty_lines_spec(s: Seq<char>) -> Seq<Seq<char>>;
/// str::split(p) for a non-empty pattern
pub uninterp spec fn split_spec(s: Seq<char>, p: Seq<char>) -> Seq<Seq<char>>;
/// index of the first occurrence of the character `ch` in `s` (its length when there is none)
pub open spec fn ch_pos(s: Seq<char>, ch: char) -> int
    decreases s.len()
{
    if s.len() == 0 { 0 } else if s[0] == ch { 0 } else { 1 + ch_pos(s.subrange(1, s.len() as int), ch) }
}
/// str::split(c) for a character pattern as std documents it (trusted model): the pieces between the occurrences of the
/// character, empty pieces included, always at least one piece.  Opaque like `lines_spec`.
#[verifier::opaque]
pub open spec fn split_ch(s: Seq<char>, ch: char) -> Seq<Seq<char>>
    decreases s.len()
{
    let i = ch_pos(s, ch);
    if i < 0 || i >= s.len() { seq![s] }
    else { seq![s.subrange(0, i)] + split_ch(s.subrange(i + 1, s.len() as int), ch) }
}
pub axiom fn axiom_split_ch(s: Seq<char>, ch: char)
    ensures split_spec(s, seq![ch]) == split_ch(s, ch);
/// str::split('\n') as std documents it (trusted model): the pieces between the line feeds, empty pieces included, always at
/// least one piece.  Opaque like `lines_spec`.
#[verifier::opaque]
pub open spec fn split_nl(s: Seq<char>) -> Seq<Seq<char>>
    decreases s.len()
{
    let i = nl_pos(s);
    if i < 0 || i >= s.len() { seq![s] }
    else { seq![s.subrange(0, i)] + split_nl(s.subrange(i + 1, s.len() as int)) }
}
pub axiom fn axiom_split_nl(s: Seq<char>)
    ensures split_spec(s, seq!['\n']) == split_nl(s);
/// str::split (std docs): no match gives the whole string as the only piece; a match gives at least two pieces
pub axiom fn axiom_split_whole(s: Seq<char>, p: Seq<char>)
    requires p.len() > 0
    ensures (split_spec(s, p).len() == 1) == !contains_seq(s, p), split_spec(s, p).len() >= 1, !contains_seq(s, p) ==> split_spec(s, p)[0] == s;
pub uninterp spec fn upper_spec(s: Seq<char>) -> Seq<char>;
/// str::replace(&str, &str): all non-overlapping matches, left to right (left uninterpreted; only its functionality matters)
pub uninterp spec fn replace_spec(s: Seq<char>, from: Seq<char>, to: Seq<char>) -> Seq<char>;
pub uninterp spec fn lower_spec(s: Seq<char>) -> Seq<char>;

pub trait VxPat: Sized {
    spec fn pat_seq(self) -> Seq<char>;
    fn p_find(self, s: &str) -> (r: Option<usize>)
        ensures
            r.is_some() == contains_seq(s@, self.pat_seq()),
            r.is_some() ==> first_at(s@, self.pat_seq(), cidx(s@, r.unwrap() as int))
                && vstd::utf8::is_char_boundary(s.spec_bytes(), r.unwrap() as int) && r.unwrap() + vstd::utf8::encode_utf8(self.pat_seq()).len() <= s.spec_bytes().len()
                && vstd::utf8::is_char_boundary(s.spec_bytes(), r.unwrap() as int + vstd::utf8::encode_utf8(self.pat_seq()).len())
                && cidx(s@, r.unwrap() as int + vstd::utf8::encode_utf8(self.pat_seq()).len()) == cidx(s@, r.unwrap() as int) + self.pat_seq().len();
    fn p_rfind(self, s: &str) -> (r: Option<usize>)
        ensures
            r.is_some() == contains_seq(s@, self.pat_seq()),
            r.is_some() ==> last_at(s@, self.pat_seq(), cidx(s@, r.unwrap() as int))
                && vstd::utf8::is_char_boundary(s.spec_bytes(), r.unwrap() as int) && r.unwrap() + vstd::utf8::encode_utf8(self.pat_seq()).len() <= s.spec_bytes().len();
    fn p_starts(self, s: &str) -> (r: bool) ensures r == is_sub_at(s@, self.pat_seq(), 0);
    fn p_ends(self, s: &str) -> (r: bool) ensures r == is_sub_at(s@, self.pat_seq(), s@.len() - self.pat_seq().len());
    fn p_strip<'a>(self, s: &'a str) -> (r: Option<&'a str>)
        ensures r.is_some() == is_sub_at(s@, self.pat_seq(), 0),
                r.is_some() ==> r.unwrap()@ == s@.subrange(self.pat_seq().len() as int, s@.len() as int);
    fn p_split<'a>(self, s: &'a str) -> (r: Vec<&'a str>)
        ensures r@.len() == split_spec(s@, self.pat_seq()).len(), r@.len() >= 1,
                forall|i: int| 0 <= i < r@.len() ==> (#[trigger] r@[i])@ == split_spec(s@, self.pat_seq())[i];
}
impl VxPat for char {
    open spec fn pat_seq(self) -> Seq<char> { seq![self] }
    #[verifier::external_body] fn p_find(self, s: &str) -> (r: Option<usize>) { s.find(self) }
    #[verifier::external_body] fn p_rfind(self, s: &str) -> (r: Option<usize>) { s.rfind(self) }
    #[verifier::external_body] fn p_starts(self, s: &str) -> (r: bool) { s.starts_with(self) }
    #[verifier::external_body] fn p_ends(self, s: &str) -> (r: bool) { s.ends_with(self) }
    #[verifier::external_body] fn p_strip<'a>(self, s: &'a str) -> (r: Option<&'a str>) { s.strip_prefix(self) }
    #[verifier::external_body] fn p_split<'a>(self, s: &'a str) -> (r: Vec<&'a str>) { s.split(self).collect() }
}
impl<'b> VxPat for &'b str {
    open spec fn pat_seq(self) -> Seq<char> { self@ }
    #[verifier::external_body] fn p_find(self, s: &str) -> (r: Option<usize>) { s.find(self) }
    #[verifier::external_body] fn p_rfind(self, s: &str) -> (r: Option<usize>) { s.rfind(self) }
    #[verifier::external_body] fn p_starts(self, s: &str) -> (r: bool) { s.starts_with(self) }
    #[verifier::external_body] fn p_ends(self, s: &str) -> (r: bool) { s.ends_with(self) }
    #[verifier::external_body] fn p_strip<'a>(self, s: &'a str) -> (r: Option<&'a str>) { s.strip_prefix(self) }
    #[verifier::external_body] fn p_split<'a>(self, s: &'a str) -> (r: Vec<&'a str>) { s.split(self).collect() }
}
impl<'b> VxPat for &'b String {
    open spec fn pat_seq(self) -> Seq<char> { self@ }
    #[verifier::external_body] fn p_find(self, s: &str) -> (r: Option<usize>) { s.find(self.as_str()) }
    #[verifier::external_body] fn p_rfind(self, s: &str) -> (r: Option<usize>) { s.rfind(self.as_str()) }
    #[verifier::external_body] fn p_starts(self, s: &str) -> (r: bool) { s.starts_with(self.as_str()) }
    #[verifier::external_body] fn p_ends(self, s: &str) -> (r: bool) { s.ends_with(self.as_str()) }
    #[verifier::external_body] fn p_strip<'a>(self, s: &'a str) -> (r: Option<&'a str>) { s.strip_prefix(self.as_str()) }
    #[verifier::external_body] fn p_split<'a>(self, s: &'a str) -> (r: Vec<&'a str>) { s.split(self.as_str()).collect() }
}

/// extension methods on str: the extractor renames `.m(` to `.vx_m(` so that Rust's own autoref/autoderef of the
/// receiver is kept; each body is the original std call.
pub trait VxStr {
    spec fn sv(&self) -> Seq<char>;
    spec fn sb(&self) -> Seq<u8>;
    fn vx_contains<P: VxPat>(&self, p: P) -> (r: bool) ensures r == contains_seq(self.sv(), p.pat_seq());
    fn vx_starts_with<P: VxPat>(&self, p: P) -> (r: bool) ensures r == is_sub_at(self.sv(), p.pat_seq(), 0);
    fn vx_ends_with<P: VxPat>(&self, p: P) -> (r: bool) ensures r == is_sub_at(self.sv(), p.pat_seq(), self.sv().len() - p.pat_seq().len());
    fn vx_find<P: VxPat>(&self, p: P) -> (r: Option<usize>)
        ensures
            r.is_some() == contains_seq(self.sv(), p.pat_seq()),
            r.is_some() ==> first_at(self.sv(), p.pat_seq(), cidx(self.sv(), r.unwrap() as int))
                && vstd::utf8::is_char_boundary(self.sb(), r.unwrap() as int) && r.unwrap() + vstd::utf8::encode_utf8(p.pat_seq()).len() <= self.sb().len()
                && vstd::utf8::is_char_boundary(self.sb(), r.unwrap() as int + vstd::utf8::encode_utf8(p.pat_seq()).len())
                && cidx(self.sv(), r.unwrap() as int + vstd::utf8::encode_utf8(p.pat_seq()).len()) == cidx(self.sv(), r.unwrap() as int) + p.pat_seq().len();
    fn vx_rfind<P: VxPat>(&self, p: P) -> (r: Option<usize>)
        ensures
            r.is_some() == contains_seq(self.sv(), p.pat_seq()),
            r.is_some() ==> last_at(self.sv(), p.pat_seq(), cidx(self.sv(), r.unwrap() as int))
                && vstd::utf8::is_char_boundary(self.sb(), r.unwrap() as int) && r.unwrap() + vstd::utf8::encode_utf8(p.pat_seq()).len() <= self.sb().len();
    fn vx_strip_prefix<'a, P: VxPat>(&'a self, p: P) -> (r: Option<&'a str>)
        ensures r.is_some() == is_sub_at(self.sv(), p.pat_seq(), 0),
                r.is_some() ==> r.unwrap()@ == self.sv().subrange(p.pat_seq().len() as int, self.sv().len() as int);
    fn vx_trim<'a>(&'a self) -> (r: &'a str) ensures (vstd::utf8::is_ascii_chars(self.sv()) ==> r.spec_bytes().len() == r@.len()), r@ == trim_spec(self.sv());
    fn vx_trim_start<'a>(&'a self) -> (r: &'a str) ensures (vstd::utf8::is_ascii_chars(self.sv()) ==> r.spec_bytes().len() == r@.len()), r@ == trim_start_spec(self.sv(), |c: char| ws(c));
    fn vx_trim_end<'a>(&'a self) -> (r: &'a str) ensures (vstd::utf8::is_ascii_chars(self.sv()) ==> r.spec_bytes().len() == r@.len()), r@ == trim_end_spec(self.sv(), |c: char| ws(c));
    /// `s.matches(c).count()`: the number of occurrences of a character (never more than the length)
    fn vx_count_char(&self, c: char) -> (r: usize) ensures r as int <= self.sv().len();
    fn vx_trim_end_matches2<'a>(&'a self, c1: char, c2: char) -> (r: &'a str) ensures (vstd::utf8::is_ascii_chars(self.sv()) ==> r.spec_bytes().len() == r@.len()), r@ == trim_end_spec(self.sv(), |c: char| c == c1 || c == c2);
    fn vx_trim_end_matches<'a>(&'a self, c: char) -> (r: &'a str) ensures (vstd::utf8::is_ascii_chars(self.sv()) ==> r.spec_bytes().len() == r@.len()), r@ == trim_end_char_spec(self.sv(), c);
    fn vx_trim_start_matches<'a>(&'a self, c: char) -> (r: &'a str) ensures (vstd::utf8::is_ascii_chars(self.sv()) ==> r.spec_bytes().len() == r@.len()), r@ == trim_start_char_spec(self.sv(), c);
    fn vx_replace_char(&self, from: char, to: &str) -> (r: String) ensures r@ == replace_char_spec(self.sv(), from, to@);
    fn vx_replace(&self, from: &str, to: &str) -> (r: String) ensures r@ == replace_spec(self.sv(), from@, to@);
    fn vx_to_uppercase(&self) -> (r: String) ensures r@ == upper_spec(self.sv());
    fn vx_to_lowercase(&self) -> (r: String) ensures r@ == lower_spec(self.sv());
    fn vx_lines<'a>(&'a self) -> (r: Vec<&'a str>)
        ensures r@.len() == lines_spec(self.sv()).len(), forall|i: int| 0 <= i < r@.len() ==> (#[trigger] r@[i])@ == lines_spec(self.sv())[i];
    /// `s.lines().map(|l| l.to_string()).collect()`
    fn vx_lines_owned(&self) -> (r: Vec<String>)
        ensures r@.len() == lines_spec(self.sv()).len(), forall|i: int| 0 <= i < r@.len() ==> (#[trigger] r@[i])@ == lines_spec(self.sv())[i];
    /// `s.lines().map(|l| l.to_string()).filter(|l| !l.is_empty()).collect()`
    fn vx_nonempty_lines(&self) -> (r: Vec<String>)
        ensures r@.len() == nonempty_lines_spec(self.sv()).len(),
                forall|i: int| 0 <= i < r@.len() ==> (#[trigger] r@[i])@ == nonempty_lines_spec(self.sv())[i] && r@[i]@.len() > 0;
    fn vx_split<'a, P: VxPat>(&'a self, p: P) -> (r: Vec<&'a str>)
        ensures r@.len() == split_spec(self.sv(), p.pat_seq()).len(), r@.len() >= 1,
                forall|i: int| 0 <= i < r@.len() ==> (#[trigger] r@[i])@ == split_spec(self.sv(), p.pat_seq())[i];
    fn vx_split_at<'a>(&'a self, mid: usize) -> (r: (&'a str, &'a str))
        requires mid <= self.sb().len(), vstd::utf8::is_char_boundary(self.sb(), mid as int)
        ensures r.0.spec_bytes() == self.sb().subrange(0, mid as int), r.1.spec_bytes() == self.sb().subrange(mid as int, self.sb().len() as int);
    fn vx_nth_char(&self, n: usize) -> (r: Option<char>)
        ensures r.is_some() == (n < self.sv().len()), r.is_some() ==> r.unwrap() == self.sv()[n as int];
    /// `s.char_indices().collect()`: byte offset and value of every character, in order
    fn vx_char_indices(&self) -> (r: Vec<(usize, char)>)
        ensures r@.len() == self.sv().len(), forall|k: int| 0 <= k < r@.len() ==> (#[trigger] r@[k]).1 == self.sv()[k] && r@[k].0 as int == boff(self.sv(), k);
    fn vx_last_char(&self) -> (r: Option<char>)
        ensures r.is_some() == (self.sv().len() > 0), r.is_some() ==> r.unwrap() == self.sv().last();
    fn vx_parse_u32(&self) -> (r: Result<u32, core::num::ParseIntError>)
        ensures r.is_ok() == parse_unsigned_spec(self.sv(), u32::MAX as nat).is_some(),
                r.is_ok() ==> r.unwrap() as nat == parse_unsigned_spec(self.sv(), u32::MAX as nat).unwrap();
    fn vx_parse_u8(&self) -> (r: Result<u8, core::num::ParseIntError>)
        ensures r.is_ok() == parse_unsigned_spec(self.sv(), u8::MAX as nat).is_some(),
                r.is_ok() ==> r.unwrap() as nat == parse_unsigned_spec(self.sv(), u8::MAX as nat).unwrap();
    fn vx_parse_u16(&self) -> (r: Result<u16, core::num::ParseIntError>)
        ensures r.is_ok() == parse_unsigned_spec(self.sv(), u16::MAX as nat).is_some(),
                r.is_ok() ==> r.unwrap() as nat == parse_unsigned_spec(self.sv(), u16::MAX as nat).unwrap();
    fn vx_parse_u64(&self) -> (r: Result<u64, core::num::ParseIntError>)
        ensures r.is_ok() == parse_unsigned_spec(self.sv(), u64::MAX as nat).is_some(),
                r.is_ok() ==> r.unwrap() as nat == parse_unsigned_spec(self.sv(), u64::MAX as nat).unwrap();
    fn vx_parse_usize(&self) -> (r: Result<usize, core::num::ParseIntError>)
        ensures r.is_ok() == parse_unsigned_spec(self.sv(), usize::MAX as nat).is_some(),
                r.is_ok() ==> r.unwrap() as nat == parse_unsigned_spec(self.sv(), usize::MAX as nat).unwrap();
    fn vx_parse_i32(&self) -> (r: Result<i32, core::num::ParseIntError>)
        ensures r.is_ok() == parse_i32_spec(self.sv()).is_some(),
                r.is_ok() ==> r.unwrap() as int == parse_i32_spec(self.sv()).unwrap();
    fn vx_parse_f64(&self) -> (r: Result<f64, core::num::ParseFloatError>)
        ensures r.is_ok() == f64_grammar(self.sv()), r.is_ok() ==> r.unwrap() == f64_value(self.sv());
}
impl VxStr for str {
    open spec fn sv(&self) -> Seq<char> { self@ }
    open spec fn sb(&self) -> Seq<u8> { self.spec_bytes() }
    fn vx_contains<P: VxPat>(&self, p: P) -> (r: bool) { p.p_find(self).is_some() }
    fn vx_starts_with<P: VxPat>(&self, p: P) -> (r: bool) { p.p_starts(self) }
    fn vx_ends_with<P: VxPat>(&self, p: P) -> (r: bool) { p.p_ends(self) }
    fn vx_find<P: VxPat>(&self, p: P) -> (r: Option<usize>) { p.p_find(self) }
    fn vx_rfind<P: VxPat>(&self, p: P) -> (r: Option<usize>) { p.p_rfind(self) }
    fn vx_strip_prefix<'a, P: VxPat>(&'a self, p: P) -> (r: Option<&'a str>) { p.p_strip(self) }
    #[verifier::external_body] fn vx_trim<'a>(&'a self) -> (r: &'a str) { self.trim() }
    #[verifier::external_body] fn vx_trim_start<'a>(&'a self) -> (r: &'a str) { self.trim_start() }
    #[verifier::external_body] fn vx_trim_end<'a>(&'a self) -> (r: &'a str) { self.trim_end() }
    #[verifier::external_body] fn vx_count_char(&self, c: char) -> (r: usize) { self.matches(c).count() }
    #[verifier::external_body] fn vx_trim_end_matches2<'a>(&'a self, c1: char, c2: char) -> (r: &'a str) { self.trim_end_matches([c1, c2]) }
    #[verifier::external_body] fn vx_trim_end_matches<'a>(&'a self, c: char) -> (r: &'a str) { self.trim_end_matches(c) }
    #[verifier::external_body] fn vx_trim_start_matches<'a>(&'a self, c: char) -> (r: &'a str) { self.trim_start_matches(c) }
    #[verifier::external_body] fn vx_replace_char(&self, from: char, to: &str) -> (r: String) { self.replace(from, to) }
    #[verifier::external_body] fn vx_replace(&self, from: &str, to: &str) -> (r: String) { self.replace(from, to) }
    #[verifier::external_body] fn vx_to_uppercase(&self) -> (r: String) { self.to_uppercase() }
    #[verifier::external_body] fn vx_to_lowercase(&self) -> (r: String) { self.to_lowercase() }
    #[verifier::external_body] fn vx_lines<'a>(&'a self) -> (r: Vec<&'a str>) { self.lines().collect() }
    #[verifier::external_body] fn vx_lines_owned(&self) -> (r: Vec<String>) { self.lines().map(|l| l.to_string()).collect() }
    #[verifier::external_body] fn vx_nonempty_lines(&self) -> (r: Vec<String>) { self.lines().map(|l| l.to_string()).filter(|l| !l.is_empty()).collect() }
    fn vx_split<'a, P: VxPat>(&'a self, p: P) -> (r: Vec<&'a str>) { p.p_split(self) }
    #[verifier::external_body] fn vx_split_at<'a>(&'a self, mid: usize) -> (r: (&'a str, &'a str)) { self.split_at(mid) }
    #[verifier::external_body] fn vx_nth_char(&self, n: usize) -> (r: Option<char>) { self.chars().nth(n) }
    #[verifier::external_body] fn vx_char_indices(&self) -> (r: Vec<(usize, char)>) { self.char_indices().collect() }
    #[verifier::external_body] fn vx_last_char(&self) -> (r: Option<char>) { self.chars().last() }
    #[verifier::external_body] fn vx_parse_u32(&self) -> (r: Result<u32, core::num::ParseIntError>) { self.parse::<u32>() }
    #[verifier::external_body] fn vx_parse_u8(&self) -> (r: Result<u8, core::num::ParseIntError>) { self.parse::<u8>() }
    #[verifier::external_body] fn vx_parse_u16(&self) -> (r: Result<u16, core::num::ParseIntError>) { self.parse::<u16>() }
    #[verifier::external_body] fn vx_parse_u64(&self) -> (r: Result<u64, core::num::ParseIntError>) { self.parse::<u64>() }
    #[verifier::external_body] fn vx_parse_usize(&self) -> (r: Result<usize, core::num::ParseIntError>) { self.parse::<usize>() }
    #[verifier::external_body] fn vx_parse_i32(&self) -> (r: Result<i32, core::num::ParseIntError>) { self.parse::<i32>() }
    #[verifier::external_body] fn vx_parse_f64(&self) -> (r: Result<f64, core::num::ParseFloatError>) { self.parse::<f64>() }
}

/// `[T]::contains(&x)` / `join` for tables of string literals (code tables)
pub open spec fn lits_contain(v: Seq<&'static str>, x: Seq<char>) -> bool { exists|k: int| 0 <= k < v.len() && (#[trigger] v[k])@ == x }
/// `table.iter().position(|&c| c == x)`: index of the first literal equal to x
#[verifier::external_body]
pub fn lits_position(v: &Vec<&'static str>, x: &str) -> (r: Option<usize>)
    ensures r.is_some() == lits_contain(v@, x@),
            r.is_some() ==> (r.unwrap() as int) < v@.len() && v@[r.unwrap() as int]@ == x@ && forall|k: int| 0 <= k < r.unwrap() ==> (#[trigger] v@[k])@ != x@
{ v.iter().position(|&c| c == x) }
pub trait VxSliceStr {
    spec fn lits(&self) -> Seq<&'static str>;
    fn vx_contains(&self, x: &&str) -> (r: bool) ensures r == lits_contain(self.lits(), x@);
    fn vx_join(&self, sep: &str) -> (r: String);
}
impl VxSliceStr for Vec<&'static str> {
    open spec fn lits(&self) -> Seq<&'static str> { self@ }
    #[verifier::external_body] fn vx_contains(&self, x: &&str) -> (r: bool) { self.contains(x) }
    #[verifier::external_body] fn vx_join(&self, sep: &str) -> (r: String) { self.join(sep) }
}

#[verifier::external_body]
pub fn opt_string_or_empty(o: &Option<String>) -> (r: &str)
    ensures r@ == (if o.is_some() { o.unwrap()@ } else { Seq::<char>::empty() })
{ o.as_deref().unwrap_or("") }
pub open spec fn opt_ref<T>(o: &Option<T>) -> Option<&T> { match o { Some(v) => Some(v), None => None } }
impl<const N: usize> VxSliceStr for [&'static str; N] {
    open spec fn lits(&self) -> Seq<&'static str> { self@ }
    #[verifier::external_body] fn vx_contains(&self, x: &&str) -> (r: bool) { self.contains(x) }
    #[verifier::external_body] fn vx_join(&self, sep: &str) -> (r: String) { self.join(sep) }
}

// ---------------------------------------------------------------- format!/push with string arguments = concatenation
pub trait VxAsStr { spec fn sview(&self) -> Seq<char>; fn vx_str(&self) -> (r: &str) ensures r@ == self.sview(); }
impl VxAsStr for String { open spec fn sview(&self) -> Seq<char> { self@ } #[verifier::external_body] fn vx_str(&self) -> (r: &str) { self.as_str() } }
impl VxAsStr for str { open spec fn sview(&self) -> Seq<char> { self@ } #[verifier::external_body] fn vx_str(&self) -> (r: &str) { self } }
/// Display of String / str / char as used by `{}` in format!
pub trait VxToString { spec fn dview(&self) -> Seq<char>; fn vx_string(&self) -> (r: String) ensures r@ == self.dview(); }
impl VxToString for String { open spec fn dview(&self) -> Seq<char> { self@ } #[verifier::external_body] fn vx_string(&self) -> (r: String) { self.clone() } }
impl VxToString for str { open spec fn dview(&self) -> Seq<char> { self@ } #[verifier::external_body] fn vx_string(&self) -> (r: String) { self.to_string() } }
impl VxToString for char { open spec fn dview(&self) -> Seq<char> { seq![*self] } #[verifier::external_body] fn vx_string(&self) -> (r: String) { self.to_string() } }
/// Display of f64 (`{}`): the shortest rendering that reads back as the same value (uninterpreted text)
impl VxToString for f64 { open spec fn dview(&self) -> Seq<char> { fmt_shortest(*self) } #[verifier::external_body] fn vx_string(&self) -> (r: String) { self.to_string() } }
/// Display of the integer types (decimal rendering, uninterpreted)
pub uninterp spec fn int_text(i: int) -> Seq<char>;
/// the decimal rendering of a non-negative integer is a non-empty string of ASCII digits
pub broadcast axiom fn axiom_int_text_digits(i: int)
    requires i >= 0
    ensures #[trigger] int_text(i).len() >= 1, all_digits(int_text(i));
/// Display of a one-digit integer is that digit
pub axiom fn axiom_int_text_one_digit(i: int)
    requires 0 <= i <= 9
    ensures int_text(i) == seq![((48 + i) as u8) as char];
impl VxToString for u32 { open spec fn dview(&self) -> Seq<char> { int_text(*self as int) } #[verifier::external_body] fn vx_string(&self) -> (r: String) { self.to_string() } }
impl VxToString for u8 { open spec fn dview(&self) -> Seq<char> { int_text(*self as int) } #[verifier::external_body] fn vx_string(&self) -> (r: String) { self.to_string() } }
impl VxToString for u16 { open spec fn dview(&self) -> Seq<char> { int_text(*self as int) } #[verifier::external_body] fn vx_string(&self) -> (r: String) { self.to_string() } }
impl VxToString for u64 { open spec fn dview(&self) -> Seq<char> { int_text(*self as int) } #[verifier::external_body] fn vx_string(&self) -> (r: String) { self.to_string() } }
impl VxToString for usize { open spec fn dview(&self) -> Seq<char> { int_text(*self as int) } #[verifier::external_body] fn vx_string(&self) -> (r: String) { self.to_string() } }
impl VxToString for i32 { open spec fn dview(&self) -> Seq<char> { int_text(*self as int) } #[verifier::external_body] fn vx_string(&self) -> (r: String) { self.to_string() } }
/// `Vec<String>::join(sep)`
pub open spec fn join_spec(v: Seq<String>, sep: Seq<char>) -> Seq<char>
    decreases v.len()
{
    if v.len() == 0 { Seq::<char>::empty() } else if v.len() == 1 { v[0]@ } else { join_spec(v.drop_last(), sep) + sep + v.last()@ }
}
pub trait VxJoinStrings { fn vx_join(&self, sep: &str) -> (r: String); }
impl VxJoinStrings for Vec<String> { #[verifier::external_body] fn vx_join(&self, sep: &str) -> (r: String) ensures r@ == join_spec(self@, sep@) { self.join(sep) } }
/// `format!("{:C<N}", s)` (left = text first) / `format!("{:C>N}", s)` of a string: the fill character is added until the
/// text is N characters wide; a text that is already that wide is printed unchanged (core::fmt width and fill)
pub open spec fn fill_spec(c: char, n: int) -> Seq<char> { Seq::new(if n > 0 { n as nat } else { 0 }, |i: int| c) }
pub open spec fn pad_spec(s: Seq<char>, c: char, left: bool, n: int) -> Seq<char> {
    if s.len() >= n { s } else if left { s + fill_spec(c, n - s.len()) } else { fill_spec(c, n - s.len()) + s }
}
#[verifier::external_body]
pub fn str_pad(s: &str, c: char, left: bool, n: usize) -> (r: String)
    ensures r@ == pad_spec(s@, c, left, n as int)
{
    let k = s.chars().count();
    let fill: String = std::iter::repeat(c).take(n.saturating_sub(k)).collect();
    if left { format!("{}{}", s, fill) } else { format!("{}{}", fill, s) }
}
/// `format!("{SPEC}", x)` for a format spec whose rendering is not modelled ({:03}, {:.2}, ...): some string
#[verifier::external_body]
pub fn fmt_opaque<T>(spec: &str, x: &T) -> (r: String) { unimplemented!() }
/// stands for a computed format! argument the extraction abstracts (see rsx.abs_format_args): renders as an arbitrary string
pub struct AnyArg { pub g: Ghost<int> }
pub uninterp spec fn any_arg_text(a: AnyArg) -> Seq<char>;
impl VxToString for AnyArg { open spec fn dview(&self) -> Seq<char> { any_arg_text(*self) } #[verifier::external_body] fn vx_string(&self) -> (r: String) { unimplemented!() } }
impl AnyArg { #[verifier::external_body] pub fn vx_pad2(self) -> (r: String) { unimplemented!() } }
#[verifier::external_body]
pub fn any_arg() -> AnyArg { unimplemented!() }
#[verifier::external_body] pub fn cat1(p0: &str) -> (r: String) ensures r@ == p0@ { [p0].concat() }
#[verifier::external_body] pub fn cat2(p0: &str, p1: &str) -> (r: String) ensures r@ == p0@ + p1@ { [p0, p1].concat() }
#[verifier::external_body] pub fn cat3(p0: &str, p1: &str, p2: &str) -> (r: String) ensures r@ == p0@ + p1@ + p2@ { [p0, p1, p2].concat() }
#[verifier::external_body] pub fn cat4(p0: &str, p1: &str, p2: &str, p3: &str) -> (r: String) ensures r@ == p0@ + p1@ + p2@ + p3@ { [p0, p1, p2, p3].concat() }
#[verifier::external_body] pub fn cat5(p0: &str, p1: &str, p2: &str, p3: &str, p4: &str) -> (r: String) ensures r@ == p0@ + p1@ + p2@ + p3@ + p4@ { [p0, p1, p2, p3, p4].concat() }
#[verifier::external_body] pub fn cat6(p0: &str, p1: &str, p2: &str, p3: &str, p4: &str, p5: &str) -> (r: String) ensures r@ == p0@ + p1@ + p2@ + p3@ + p4@ + p5@ { [p0, p1, p2, p3, p4, p5].concat() }
#[verifier::external_body] pub fn cat7(p0: &str, p1: &str, p2: &str, p3: &str, p4: &str, p5: &str, p6: &str) -> (r: String) ensures r@ == p0@ + p1@ + p2@ + p3@ + p4@ + p5@ + p6@ { [p0, p1, p2, p3, p4, p5, p6].concat() }
#[verifier::external_body] pub fn cat8(p0: &str, p1: &str, p2: &str, p3: &str, p4: &str, p5: &str, p6: &str, p7: &str) -> (r: String) ensures r@ == p0@ + p1@ + p2@ + p3@ + p4@ + p5@ + p6@ + p7@ { [p0, p1, p2, p3, p4, p5, p6, p7].concat() }
#[verifier::external_body] pub fn cat9(p0: &str, p1: &str, p2: &str, p3: &str, p4: &str, p5: &str, p6: &str, p7: &str, p8: &str) -> (r: String) ensures r@ == p0@ + p1@ + p2@ + p3@ + p4@ + p5@ + p6@ + p7@ + p8@ { [p0, p1, p2, p3, p4, p5, p6, p7, p8].concat() }
#[verifier::external_body] pub fn cat10(p0: &str, p1: &str, p2: &str, p3: &str, p4: &str, p5: &str, p6: &str, p7: &str, p8: &str, p9: &str) -> (r: String) ensures r@ == p0@ + p1@ + p2@ + p3@ + p4@ + p5@ + p6@ + p7@ + p8@ + p9@ { [p0, p1, p2, p3, p4, p5, p6, p7, p8, p9].concat() }

// ---------------------------------------------------------------- reordering operations: only the length is specified
// (a contract that depends on element order cannot be proved across them, which is the intended, conservative effect)
pub assume_specification<T, F: FnMut(&T, &T) -> core::cmp::Ordering>[ <[T]>::sort_by ](v: &mut [T], f: F)
    ensures final(v)@.len() == old(v)@.len();
pub assume_specification<T, K: Ord, F: FnMut(&T) -> K>[ <[T]>::sort_by_key ](v: &mut [T], f: F)
    ensures final(v)@.len() == old(v)@.len();
pub assume_specification<T: Ord>[ <[T]>::sort ](v: &mut [T])
    ensures final(v)@.len() == old(v)@.len();
pub assume_specification<T>[ <[T]>::reverse ](v: &mut [T])
    ensures final(v)@.len() == old(v)@.len();

// ---------------------------------------------------------------- HashSet<String> as a set of char sequences
pub trait VxStrSet {
    spec fn keys(&self) -> Set<Seq<char>>;
    fn vx_contains(&self, k: &str) -> (r: bool) ensures r == self.keys().contains(k@);
    fn vx_insert(&mut self, k: String) -> (r: bool) ensures final(self).keys() == old(self).keys().insert(k@), r == !old(self).keys().contains(k@);
    fn vx_remove(&mut self, k: &str) -> (r: bool) ensures final(self).keys() == old(self).keys().remove(k@), r == old(self).keys().contains(k@);
}
impl VxStrSet for std::collections::HashSet<String> {
    open spec fn keys(&self) -> Set<Seq<char>> { self@.map(|s: String| s@) }
    #[verifier::external_body] fn vx_contains(&self, k: &str) -> (r: bool) { self.contains(k) }
    #[verifier::external_body] fn vx_insert(&mut self, k: String) -> (r: bool) { self.insert(k) }
    #[verifier::external_body] fn vx_remove(&mut self, k: &str) -> (r: bool) { self.remove(k) }
}

// ---------------------------------------------------------------- `{:02}` of an integer (core::fmt: zero-padded to width 2)
pub uninterp spec fn dec_other(n: int) -> Seq<char>;
pub open spec fn digit_char(d: int) -> char { (('0' as u32) + d as u32) as char }
pub open spec fn pad2_spec(n: int) -> Seq<char> { if 0 <= n <= 99 { seq![digit_char(n / 10), digit_char(n % 10)] } else { dec_other(n) } }
pub trait VxPad2 { spec fn ival(self) -> int; fn vx_pad2(self) -> (r: String) ensures r@ == pad2_spec(self.ival()); }
impl VxPad2 for i32 { open spec fn ival(self) -> int { self as int } #[verifier::external_body] fn vx_pad2(self) -> (r: String) { format!("{:02}", self) } }
impl VxPad2 for u32 { open spec fn ival(self) -> int { self as int } #[verifier::external_body] fn vx_pad2(self) -> (r: String) { format!("{:02}", self) } }
impl VxPad2 for u8 { open spec fn ival(self) -> int { self as int } #[verifier::external_body] fn vx_pad2(self) -> (r: String) { format!("{:02}", self) } }
impl VxPad2 for usize { open spec fn ival(self) -> int { self as int } #[verifier::external_body] fn vx_pad2(self) -> (r: String) { format!("{:02}", self) } }
/// `{:03}` of an integer: zero-padded to width 3 (wider values are printed in full, left uninterpreted)
pub open spec fn pad3_spec(n: int) -> Seq<char> { if 0 <= n <= 999 { seq![digit_char(n / 100), digit_char((n / 10) % 10), digit_char(n % 10)] } else { dec_other(n) } }
pub trait VxPad3 { spec fn ival3(self) -> int; fn vx_pad3(self) -> (r: String) ensures r@ == pad3_spec(self.ival3()); }
impl VxPad3 for i32 { open spec fn ival3(self) -> int { self as int } #[verifier::external_body] fn vx_pad3(self) -> (r: String) { format!("{:03}", self) } }
impl VxPad3 for u32 { open spec fn ival3(self) -> int { self as int } #[verifier::external_body] fn vx_pad3(self) -> (r: String) { format!("{:03}", self) } }
impl VxPad3 for u16 { open spec fn ival3(self) -> int { self as int } #[verifier::external_body] fn vx_pad3(self) -> (r: String) { format!("{:03}", self) } }
impl VxPad3 for u8 { open spec fn ival3(self) -> int { self as int } #[verifier::external_body] fn vx_pad3(self) -> (r: String) { format!("{:03}", self) } }
impl VxPad3 for usize { open spec fn ival3(self) -> int { self as int } #[verifier::external_body] fn vx_pad3(self) -> (r: String) { format!("{:03}", self) } }

// ---------------------------------------------------------------- f64 text (machine floating point is NOT modelled)
/// Rust's f64::from_str accepts every string of ASCII digits with at most one '.', containing at least one digit
/// (documented grammar of core::num::dec2flt: Number ::= Digit* '.'? Digit*, one digit required)
pub open spec fn digits_dot(s: Seq<char>) -> bool {
    s.len() > 0 && (forall|i: int| 0 <= i < s.len() ==> (ascii_digit(#[trigger] s[i]) || s[i] == '.'))
    && (exists|i: int| 0 <= i < s.len() && ascii_digit(#[trigger] s[i]))
    && (forall|i: int, j: int| 0 <= i < j < s.len() ==> !(s[i] == '.' && s[j] == '.'))
}
pub broadcast axiom fn axiom_f64_decimal(s: Seq<char>)
    requires digits_dot(s)
    ensures #[trigger] f64_grammar(s);
/// `format!("{:.N$}", x)` / `format!("{:.10}", x)`: fixed-point rendering with N decimals (uninterpreted text)
pub uninterp spec fn fmt_fixed(x: f64, decimals: int) -> Seq<char>;
#[verifier::external_body]
pub fn fmt_f64_fixed(x: f64, decimals: usize) -> (r: String)
    ensures r@ == fmt_fixed(x, decimals as int), is_ascii_chars_f(r@)
{ format!("{:.width$}", x, width = decimals) }
pub open spec fn is_ascii_chars_f(s: Seq<char>) -> bool { vstd::utf8::is_ascii_chars(s) }
/// `x.to_string()` of an f64 (shortest round-trip rendering, uninterpreted)
pub uninterp spec fn fmt_shortest(x: f64) -> Seq<char>;
#[verifier::external_body]
pub fn f64_to_string(x: f64) -> (r: String) ensures r@ == fmt_shortest(x), is_ascii_chars_f(r@) { x.to_string() }
/// f64 comparisons used by the amount checks (uninterpreted)
pub uninterp spec fn f64_le_zero(x: f64) -> bool;
#[verifier::external_body]
pub fn f64_le0(x: f64) -> (r: bool) ensures r == f64_le_zero(x) { x <= 0.0 }
/// `match o { Some("LIT") => .. }` on an Option<&str>
#[verifier::external_body]
pub fn opt_str_is(o: Option<&str>, lit: &str) -> (r: bool) ensures r == (o.is_some() && o.unwrap()@ == lit@) { o == Some(lit) }
/// the bounds check of `&v[lo..hi]` (panics unless lo <= hi <= len)
pub fn check_slice_range(lo: usize, hi: usize, len: usize) requires lo <= hi <= len {}
/// `-x` on an f64 (machine floating point is not modelled)
pub uninterp spec fn f64_neg_spec(x: f64) -> f64;
#[verifier::external_body]
pub fn f64_neg(x: f64) -> (r: f64) ensures r == f64_neg_spec(x) { -x }
/// `s.find(|c: char| !c.is_ascii_digit()).unwrap_or(s.len())`: byte offset where the leading run of ASCII digits ends
pub open spec fn n_leading_digits(s: Seq<char>) -> int
    decreases s.len()
{ if s.len() > 0 && ascii_digit(s[0]) { 1 + n_leading_digits(s.subrange(1, s.len() as int)) } else { 0 } }
#[verifier::external_body]
pub fn leading_digits_end(s: &str) -> (r: usize)
    ensures r as int == n_leading_digits(s@), r <= s.spec_bytes().len(), vstd::utf8::is_char_boundary(s.spec_bytes(), r as int), cidx(s@, r as int) == r as int
{ s.find(|c: char| !c.is_ascii_digit()).unwrap_or(s.len()) }
/// the tag -> values multimap of the legacy tokeniser, seen as a map from tag to the values pushed under it, in push order
pub uninterp spec fn mm_view(m: &std::collections::HashMap<String, Vec<(String, usize)>>) -> Map<Seq<char>, Seq<(Seq<char>, usize)>>;
pub open spec fn mm_put(m: Map<Seq<char>, Seq<(Seq<char>, usize)>>, k: Seq<char>, v: Seq<char>, pos: usize) -> Map<Seq<char>, Seq<(Seq<char>, usize)>> {
    m.insert(k, (if m.contains_key(k) { m[k] } else { Seq::<(Seq<char>, usize)>::empty() }).push((v, pos)))
}
/// `HashMap::with_capacity(n)` / `HashMap::new()`
#[verifier::external_body]
pub fn mm_new() -> (r: std::collections::HashMap<String, Vec<(String, usize)>>)
    ensures mm_view(&r) == Map::<Seq<char>, Seq<(Seq<char>, usize)>>::empty()
{ std::collections::HashMap::new() }
/// `m.entry(k).or_default().push((v, pos))`
#[verifier::external_body]
pub fn mm_push(m: &mut std::collections::HashMap<String, Vec<(String, usize)>>, k: String, v: String, pos: usize)
    ensures mm_view(final(m)) == mm_put(mm_view(old(m)), k@, v@, pos)
{ m.entry(k).or_default().push((v, pos)); }
/// `String::from(&str)`
#[verifier::external_body]
pub fn string_from(s: &str) -> (r: String) ensures r@ == s@ { String::from(s) }
/// an unconstrained string: stands for a computed format! argument the extraction abstracts (see rsx.abs_format_args)
#[verifier::external_body]
pub fn any_string() -> String { unimplemented!() }
/// an unconstrained boolean: stands for a guard the extraction abstracts (see rsx.havoc_guards)
#[verifier::external_body]
pub fn havoc() -> bool { unimplemented!() }
pub uninterp spec fn f64_between(x: f64, lo: f64, hi: f64) -> bool;
#[verifier::external_body]
pub fn f64_in(x: f64, lo: f64, hi: f64) -> (r: bool) ensures r == f64_between(x, lo, hi) { (lo..=hi).contains(&x) }

// ---------------------------------------------------------------- f64 (machine floating point is NOT modelled: comparisons are uninterpreted predicates)
/// f64 arithmetic is left uninterpreted: a rule that sums amounts and compares them with a tolerance is verified for its
/// structure (which amounts, which tolerance, which comparison), not for the arithmetic
pub uninterp spec fn fadd(a: f64, b: f64) -> f64;
#[verifier::external_body] pub fn f64_add(a: f64, b: f64) -> (r: f64) ensures r == fadd(a, b) { a + b }
pub uninterp spec fn absdiff_lt(a: f64, b: f64, k: f64) -> bool;
pub uninterp spec fn absdiff_gt(a: f64, b: f64, k: f64) -> bool;
pub uninterp spec fn absdiff_ge(a: f64, b: f64, k: f64) -> bool;
pub uninterp spec fn absdiff_le(a: f64, b: f64, k: f64) -> bool;
#[verifier::external_body] pub fn f64_absdiff_lt(a: f64, b: f64, k: f64) -> (r: bool) ensures r == absdiff_lt(a, b, k) { (a - b).abs() < k }
#[verifier::external_body] pub fn f64_absdiff_gt(a: f64, b: f64, k: f64) -> (r: bool) ensures r == absdiff_gt(a, b, k) { (a - b).abs() > k }
#[verifier::external_body] pub fn f64_absdiff_ge(a: f64, b: f64, k: f64) -> (r: bool) ensures r == absdiff_ge(a, b, k) { (a - b).abs() >= k }
#[verifier::external_body] pub fn f64_absdiff_le(a: f64, b: f64, k: f64) -> (r: bool) ensures r == absdiff_le(a, b, k) { (a - b).abs() <= k }
pub uninterp spec fn abs_lt(x: f64, bound: f64) -> bool;
pub uninterp spec fn f64_abs_spec(x: f64) -> f64;
pub trait VxF64: Sized { spec fn fv(self) -> f64; fn vx_abs_lt(self, bound: f64) -> (r: bool) ensures r == abs_lt(self.fv(), bound); fn vx_abs(self) -> (r: f64) ensures r == f64_abs_spec(self.fv()); }
impl VxF64 for f64 {
    open spec fn fv(self) -> f64 { self }
    #[verifier::external_body] fn vx_abs_lt(self, bound: f64) -> (r: bool) { self.abs() < bound }
    #[verifier::external_body] fn vx_abs(self) -> (r: f64) { self.abs() }
}

// ---------------------------------------------------------------- Vec idioms
/// what `Vec::extend` may be given: a vector (its elements in order) or an option (its value, if any)
pub trait VxItems<T>: Sized { spec fn items(self) -> Seq<T>; fn into_vec(self) -> (r: Vec<T>) ensures r@ == self.items(); }
impl<T> VxItems<T> for Vec<T> { open spec fn items(self) -> Seq<T> { self@ } fn into_vec(self) -> (r: Vec<T>) { self } }
impl<T> VxItems<T> for Option<T> {
    open spec fn items(self) -> Seq<T> { match self { Some(x) => seq![x], None => Seq::<T>::empty() } }
    #[verifier::external_body] fn into_vec(self) -> (r: Vec<T>) { self.into_iter().collect() }
}
pub trait VxVec<T> {
    spec fn vv(&self) -> Seq<T>;
    fn vx_extend<I: VxItems<T>>(&mut self, other: I) ensures final(self).vv() == old(self).vv() + other.items();
    /// `Vec::remove(i)`: panics when i is out of bounds
    fn vx_remove(&mut self, i: usize) -> (r: T) requires i < old(self).vv().len() ensures final(self).vv() == old(self).vv().remove(i as int), r == old(self).vv()[i as int];
}
impl<T> VxVec<T> for Vec<T> {
    open spec fn vv(&self) -> Seq<T> { self@ }
    #[verifier::external_body] fn vx_extend<I: VxItems<T>>(&mut self, other: I) { self.extend(other.into_vec()) }
    #[verifier::external_body] fn vx_remove(&mut self, i: usize) -> (r: T) { self.remove(i) }
}
/// `char::to_digit(10)`
/// `Option<String>::as_deref()` (std: `Some(s) => Some(&*s)`, `None => None`)
pub trait VxOptDeref { fn vx_as_deref<'a>(&'a self) -> (r: Option<&'a str>); }
impl VxOptDeref for Option<String> {
    #[verifier::external_body] fn vx_as_deref<'a>(&'a self) -> (r: Option<&'a str>)
        ensures r.is_some() == self.is_some(), self.is_some() ==> r.unwrap()@ == self.unwrap()@
    { self.as_deref() }
}
pub trait VxChar { fn vx_to_digit10(self) -> (r: Option<u32>); }
impl VxChar for char {
    #[verifier::external_body] fn vx_to_digit10(self) -> (r: Option<u32>)
        ensures r.is_some() == ascii_digit(self), r.is_some() ==> r.unwrap() == dval(self) as u32
    { self.to_digit(10) }
}

#[verifier::external_body]
pub fn vec_any<T, F: Fn(&T) -> bool>(v: &Vec<T>, f: F) -> (r: bool)
    requires forall|i: int| 0 <= i < v@.len() ==> call_requires(f, (&#[trigger] v@[i],))
    ensures r ==> exists|i: int| 0 <= i < v@.len() && call_ensures(f, (&#[trigger] v@[i],), true),
            !r ==> forall|i: int| 0 <= i < v@.len() ==> call_ensures(f, (&#[trigger] v@[i],), false)
{ v.iter().any(f) }
#[verifier::external_body]
pub fn vec_all<T, F: Fn(&T) -> bool>(v: &Vec<T>, f: F) -> (r: bool)
    requires forall|i: int| 0 <= i < v@.len() ==> call_requires(f, (&#[trigger] v@[i],))
    ensures r ==> forall|i: int| 0 <= i < v@.len() ==> call_ensures(f, (&#[trigger] v@[i],), true),
            !r ==> exists|i: int| 0 <= i < v@.len() && call_ensures(f, (&#[trigger] v@[i],), false)
{ v.iter().all(f) }

#[verifier::external_body]
pub fn opt_vec_any<T, F: Fn(&T) -> bool>(o: Option<&Vec<T>>, f: F) -> (r: bool)
    requires o.is_some() ==> forall|i: int| 0 <= i < o.unwrap()@.len() ==> call_requires(f, (&#[trigger] o.unwrap()@[i],))
    ensures r ==> o.is_some() && exists|i: int| 0 <= i < o.unwrap()@.len() && call_ensures(f, (&#[trigger] o.unwrap()@[i],), true),
            !r ==> o.is_none() || forall|i: int| 0 <= i < o.unwrap()@.len() ==> call_ensures(f, (&#[trigger] o.unwrap()@[i],), false)
{ o.is_some_and(|v| v.iter().any(f)) }
#[verifier::external_body]
pub fn opt_vec_all<T, F: Fn(&T) -> bool>(o: Option<&Vec<T>>, f: F) -> (r: bool)
    requires o.is_some() ==> forall|i: int| 0 <= i < o.unwrap()@.len() ==> call_requires(f, (&#[trigger] o.unwrap()@[i],))
    ensures r ==> o.is_some() && forall|i: int| 0 <= i < o.unwrap()@.len() ==> call_ensures(f, (&#[trigger] o.unwrap()@[i],), true),
            !r ==> o.is_none() || exists|i: int| 0 <= i < o.unwrap()@.len() && call_ensures(f, (&#[trigger] o.unwrap()@[i],), false)
{ o.is_some_and(|v| v.iter().all(f)) }

} // verus!
} // mod vx

// ---------------------------------------------------------------------------------------
// chrono stand-in (assumed contract of the dependency; proleptic Gregorian calendar)
// ---------------------------------------------------------------------------------------
pub mod chrono {
use vstd::prelude::*;
verus! {
pub open spec fn leap(y: int) -> bool { (y % 4 == 0 && y % 100 != 0) || y % 400 == 0 }
pub open spec fn days_in_month(y: int, m: int) -> int {
    if m == 2 { if leap(y) { 29 } else { 28 } }
    else if m == 4 || m == 6 || m == 9 || m == 11 { 30 }
    else { 31 }
}
pub open spec fn valid_ymd(y: int, m: int, d: int) -> bool {
    -262143 <= y <= 262142 && 1 <= m <= 12 && 1 <= d <= days_in_month(y, m)
}
pub open spec fn valid_hms(h: int, m: int, s: int) -> bool { 0 <= h < 24 && 0 <= m < 60 && 0 <= s < 60 }

#[verifier::external_body]
#[derive(Debug, Clone, Copy, PartialEq)]
pub struct NaiveDate { _p: i32 }
#[verifier::external_body]
#[derive(Debug, Clone, Copy, PartialEq)]
pub struct NaiveTime { _p: u32 }
#[derive(Debug, Clone, Copy, PartialEq)]
pub struct NaiveDateTime { pub date: NaiveDate, pub time: NaiveTime }

impl NaiveDate {
    pub uninterp spec fn y(&self) -> int;
    pub uninterp spec fn m(&self) -> int;
    pub uninterp spec fn d(&self) -> int;
    pub open spec fn ymd(&self) -> (int, int, int) { (self.y(), self.m(), self.d()) }
    #[verifier::external_body]
    pub fn from_ymd_opt(year: i32, month: u32, day: u32) -> (r: Option<NaiveDate>)
        ensures r.is_some() == valid_ymd(year as int, month as int, day as int),
                r.is_some() ==> r.unwrap().ymd() == (year as int, month as int, day as int)
    { unimplemented!() }
}
pub struct ChronoParseError { pub kind: u8 }
pub uninterp spec fn pfs_ok(s: Seq<char>, fmt: Seq<char>) -> bool;
pub uninterp spec fn pfs_ymd(s: Seq<char>, fmt: Seq<char>) -> (int, int, int);
impl NaiveDate {
    /// chrono::NaiveDate::parse_from_str: left uninterpreted (its format language is not modelled)
    #[verifier::external_body] pub fn parse_from_str(s: &str, fmt: &str) -> (r: Result<NaiveDate, ChronoParseError>)
        ensures r.is_ok() == pfs_ok(s@, fmt@), (match r { Ok(d) => d.ymd() == pfs_ymd(s@, fmt@), Err(_) => true })
    { unimplemented!() }
    #[verifier::external_body] pub fn year(&self) -> (r: i32) ensures r as int == self.y() { unimplemented!() }
    #[verifier::external_body] pub fn month(&self) -> (r: u32) ensures r as int == self.m() { unimplemented!() }
    #[verifier::external_body] pub fn day(&self) -> (r: u32) ensures r as int == self.d() { unimplemented!() }
    /// chrono `format("%y%m%d")` rendered to a string: two-digit year of the century, month, day, zero padded
    #[verifier::external_body] pub fn vx_fmt_yymmdd(&self) -> (r: String)
        ensures r@ == crate::vx::pad2_spec(self.y() % 100) + crate::vx::pad2_spec(self.m()) + crate::vx::pad2_spec(self.d())
    { unimplemented!() }
}
/// every NaiveDate / NaiveTime value is a valid calendar date / clock time (chrono type invariant)
pub broadcast axiom fn axiom_date_valid(d: NaiveDate)
    ensures #[trigger] valid_ymd(d.y(), d.m(), d.d());
pub broadcast axiom fn axiom_time_valid(t: NaiveTime)
    ensures #[trigger] valid_hms(t.h(), t.mi(), t.s());
impl NaiveTime {
    #[verifier::external_body] pub fn hour(&self) -> (r: u32) ensures r as int == self.h() { unimplemented!() }
    #[verifier::external_body] pub fn minute(&self) -> (r: u32) ensures r as int == self.mi() { unimplemented!() }
    /// chrono `format("%H%M")`
    #[verifier::external_body] pub fn vx_fmt_hhmm(&self) -> (r: String)
        ensures r@ == crate::vx::pad2_spec(self.h()) + crate::vx::pad2_spec(self.mi())
    { unimplemented!() }
    pub uninterp spec fn h(&self) -> int;
    pub uninterp spec fn mi(&self) -> int;
    pub uninterp spec fn s(&self) -> int;
    pub open spec fn hms(&self) -> (int, int, int) { (self.h(), self.mi(), self.s()) }
    #[verifier::external_body]
    pub fn from_hms_opt(hour: u32, min: u32, sec: u32) -> (r: Option<NaiveTime>)
        ensures r.is_some() == valid_hms(hour as int, min as int, sec as int),
                r.is_some() ==> r.unwrap().hms() == (hour as int, min as int, sec as int)
    { unimplemented!() }
    /// chrono: a time from the number of seconds since midnight (and nanoseconds, < 2_000_000_000 to allow a leap second)
    #[verifier::external_body]
    pub fn from_num_seconds_from_midnight_opt(secs: u32, nano: u32) -> (r: Option<NaiveTime>)
        ensures r.is_some() == (secs < 86400 && nano < 2000000000),
                r.is_some() ==> r.unwrap().hms() == ((secs / 3600) as int, ((secs / 60) % 60) as int, (secs % 60) as int)
    { unimplemented!() }
}
impl NaiveDateTime {
    pub fn new(date: NaiveDate, time: NaiveTime) -> (r: NaiveDateTime)
        ensures r.date == date, r.time == time
    { NaiveDateTime { date, time } }
}
} // verus!
} // mod chrono

// serde_json::Value occurs in a few message structs (copied original fields): an opaque type here
pub mod serde_json {
use vstd::prelude::*;
verus! {
#[verifier::external_body]
pub struct Value { p: u8 }
}
}
