#!/usr/bin/env python3
"""witness -- decoration only: after the verifier has reported a failed obligation, look for a concrete input on
which the REAL code (replay binary rebuilt from the working tree) disagrees with an executable rendering of the
same specification.  Never decides anything: absence of a witness leaves the violation in place
(`no-failing-input-found`)."""
import os
import re
import json
import subprocess

VERIF = os.path.dirname(os.path.dirname(os.path.abspath(__file__)))
ORACLES = {}


def oracle(fn_pattern):
    def deco(f):
        ORACLES[fn_pattern] = f
        return f
    return deco


def build_replay(repo):
    """rebuild the replay binary against `repo` (path dependency); returns path or None"""
    rdir = os.path.join(VERIF, 'replay')
    env = dict(os.environ, CARGO_NET_OFFLINE='true')
    manifest = os.path.join(rdir, 'Cargo.toml')
    tdir = os.path.join(rdir, 'target')
    if os.path.abspath(repo) != '/repo':
        # scratch tree: patch the path dependency through a generated manifest copy
        gen = os.path.join(VERIF, 'build', 'replay_scratch')
        os.makedirs(os.path.join(gen, 'src'), exist_ok=True)
        txt = open(manifest).read().replace('path = "/repo"', 'path = "%s"' % os.path.abspath(repo))
        open(os.path.join(gen, 'Cargo.toml'), 'w').write(txt)
        for f in ('Cargo.lock',):
            if os.path.exists(os.path.join(rdir, f)):
                open(os.path.join(gen, f), 'w').write(open(os.path.join(rdir, f)).read())
        open(os.path.join(gen, 'src', 'main.rs'), 'w').write(open(os.path.join(rdir, 'src', 'main.rs')).read())
        manifest = os.path.join(gen, 'Cargo.toml')
    p = subprocess.run(['cargo', 'build', '--offline', '--release', '--manifest-path', manifest, '--target-dir', tdir],
                       capture_output=True, text=True, env=env)
    if p.returncode != 0:
        return None
    return os.path.join(tdir, 'release', 'swiftmt-replay')


def esc(s):
    out = []
    for ch in s:
        if ch == '\\':
            out.append('\\\\')
        elif ch == '\n':
            out.append('\\n')
        elif ch == '\r':
            out.append('\\r')
        elif ord(ch) > 126 or ord(ch) < 32:
            out.append('\\u{%x}' % ord(ch))
        else:
            out.append(ch)
    return ''.join(out)


def run_replay(binary, entry, inp):
    p = subprocess.run([binary, entry, esc(inp)], capture_output=True, text=True)
    return p.stdout.strip()


def search(prop, unit, failure, repo):
    fn = failure.fn or ''
    for pat, f in ORACLES.items():
        if re.search(pat, fn):
            binary = build_replay(repo)
            if not binary:
                return dict(error='replay binary did not build')
            return f(binary, failure)
    return None


try:
    import oracles  # noqa  (registers ORACLES)
except ImportError:
    pass
