#!/usr/bin/env python3
"""structural -- syntactic arm checks on dispatch tables that live inside code the verifier cannot ingest
(macro_rules / async plugin glue).  These are NOT proofs: they are reported separately in the evidence
(coverage.structural) and never counted as discharged proof obligations.  A failing check is a violation of the
naming rule  code "nnn"  <->  body type MTnnn  that C12 states."""
import os
import re
import sys

sys.path.insert(0, os.path.dirname(os.path.abspath(__file__)))
import rsx


def _match_arms(src_text, fn_anchor, match_anchor):
    m = rsx.mask(src_text)
    a = src_text.find(fn_anchor)
    if a < 0:
        raise rsx.ExtractError('structural: anchor lost: ' + fn_anchor)
    b = src_text.find(match_anchor, a)
    if b < 0:
        raise rsx.ExtractError('structural: match lost: ' + match_anchor)
    ob = m.index('{', b)
    cb = rsx.match_close(m, ob)
    arms = rsx.parse_arms(src_text[ob + 1:cb])
    if arms is None:
        raise rsx.ExtractError('structural: cannot parse arms of ' + match_anchor)
    return arms


def check_c12(repo):
    res = []
    # 1. plugin/publish.rs json_to_mt:  "nnn" | "MTnnn" => convert_json!(MTnnn)
    src = open(os.path.join(repo, 'src/plugin/publish.rs'), encoding='utf-8').read()
    arms = _match_arms(src, 'fn json_to_mt(', 'match message_type {')
    seen = set()
    for pats, guard, body in arms:
        lits = [p.strip('"') for p in pats if p.startswith('"')]
        if not lits:
            ok = 'Unsupported' in body or 'Err(' in body
            res.append(('structural/publish.json_to_mt/default-arm-is-error', ok, body.strip()[:80]))
            continue
        mm = re.search(r'convert_json!\s*\(\s*MT(\d{3})\s*\)', body)
        ty = mm.group(1) if mm else None
        for l in lits:
            code = l[2:] if l.startswith('MT') else l
            seen.add(code)
            res.append(('structural/publish.json_to_mt/arm "%s"' % l, ty == code, 'arm %s dispatches to MT%s' % (l, ty)))
    # 2. plugin/parse.rs: "nnn" => { let Some(..) = parsed_message.into_mtnnn() else ...
    src = open(os.path.join(repo, 'src/plugin/parse.rs'), encoding='utf-8').read()
    arms = _match_arms(src, 'let parsed_data = match message_type.as_str()', 'match message_type.as_str()')
    for pats, guard, body in arms:
        lits = [p.strip('"') for p in pats if p.startswith('"')]
        for l in lits:
            mm = re.search(r'parsed_message\s*\.\s*into_mt(\d{3})\s*\(', body)
            ty = mm.group(1) if mm else None
            res.append(('structural/parse.parse_swift_mt/arm "%s"' % l, ty == l, 'arm %s converts with into_mt%s' % (l, ty)))
    # 3. every supported type has an arm in both tables
    import glob
    types = sorted(re.match(r'mt(\d{3})\.rs$', os.path.basename(p)).group(1) for p in glob.glob(os.path.join(repo, 'src/messages/mt*.rs')) if re.match(r'mt\d{3}\.rs$', os.path.basename(p)))
    for t in types:
        res.append(('structural/publish.json_to_mt/has-arm %s' % t, t in seen, ''))
    return res


if __name__ == '__main__':
    for oid, ok, detail in check_c12(sys.argv[1] if len(sys.argv) > 1 else '/repo'):
        if not ok:
            print('FAIL', oid, detail)
    print('done')
