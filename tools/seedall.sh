#!/bin/bash
# regression over every kept seeded change: apply, run the property's quick check, undo; prints one line per seed
cd /verif
for d in seeded/*/; do
  id=$(basename $d); prop=${id%%-*}
  [ -f $d/patch.diff ] || continue
  out=$(tools/seedtest.sh $prop /verif/$d/patch.diff 2>&1)
  if echo "$out" | grep -q "patch does not apply"; then echo "$id NOAPPLY"; continue; fi
  ex=$(echo "$out" | grep -o "exit=[0-9]*" | tail -1)
  v=$(echo "$out" | grep -c "^VIOLATION")
  echo "$id $ex violations=$v"
done
