"""Rule oracle for C04 / C13: one entry per message type, written from the rule documentation of each
src/messages/mtNNN.rs (doc comment of the rule function: rule text + error code, and the `requirements` sentence in
the error constructor), NOT from the function bodies.

entry kinds
  opt(fn, code, when)            Option-returning rule: returns Some(error with `code`) iff `when` (a Verus spec
                                 expression over `m: &MTnnn`)
  vec(fn, spec, extra)           Vec-returning rule: codes(result) == spec(m); `spec` defined in the type's preamble;
                                 `extra` = loop invariants / hints for the real function
  stub(fn, why, ret)             rule left outside the contracts (declared assumption): only its determinism is used
helpers: (fn, ensures-expression[, extra])  small accessor functions the rules call
"""


def opt(fn, code, when, doc=None, extra=None):
    return dict(kind='opt', fn=fn, code=code, when=when, doc=doc, extra=extra)


def vec(fn, spec, extra=None, doc=None):
    return dict(kind='vec', fn=fn, spec=spec, extra=extra, doc=doc)


def each(fn, coll, elem, tx, doc=None, extra=None):
    """Vec-returning rule that walks a repeated sequence `coll: Vec<elem>` and reports `tx` (a Seq<Seq<char>> expression
    over `t: &elem`) for each element, in order"""
    return dict(kind='each', fn=fn, coll=coll, elem=elem, tx=tx, doc=doc, extra=extra)


def stub(fn, why, ret='vec'):
    return dict(kind='stub', fn=fn, why=why, ret=ret)


NO_RULES = dict(rules=[])

TYPES = {}

# ---- types whose SR2025 specification has no network validated rules: the validator returns an empty list
for _t in ('111', '112', '190', '191', '199', '290', '291', '299', '900'):
    TYPES[_t] = dict(rules=[])

TYPES['205'] = dict(rules=[
    opt('validate_c1_intermediary_account_with', 'C81', 'm.intermediary.is_some() && m.account_with_institution.is_none()',
        doc='C1 (C81): if field 56a is present, field 57a must also be present'),
])

TYPES['202'] = dict(
    helpers=[
        ('has_intermediary_in_seq_a', 'r == self.field_56.is_some()'),
        ('has_account_with_in_seq_a', 'r == self.field_57.is_some()'),
        ('has_intermediary_in_seq_b', 'r == (self.sequence_b.is_some() && self.sequence_b.unwrap().intermediary.is_some())'),
        ('has_account_with_in_seq_b', 'r == (self.sequence_b.is_some() && self.sequence_b.unwrap().account_with_institution.is_some())'),
    ],
    rules=[
        opt('validate_c1_intermediary_seq_a', 'C81', 'm.field_56.is_some() && m.field_57.is_none()',
            doc='C1 (C81): 56a in sequence A => 57a in sequence A'),
        opt('validate_c2_intermediary_seq_b', 'C68',
            'm.sequence_b.is_some() && m.sequence_b.unwrap().intermediary.is_some() && m.sequence_b.unwrap().account_with_institution.is_none()',
            doc='C2 (C68): 56a in sequence B => 57a in sequence B'),
    ])

TYPES['910'] = dict(
    helpers=[('has_ordering_customer', 'r == self.field_50.is_some()'), ('has_ordering_institution', 'r == self.field_52.is_some()')],
    rules=[
        opt('validate_c1_ordering_party', 'C06', 'm.field_50.is_none() && m.field_52.is_none()',
            doc='C1 (C06): either field 50a or field 52a must be present'),
    ])

TYPES['196'] = dict(rules=[
    opt('validate_c1_field_79_or_copy', 'C31', 'false',
        doc='C1 (C31): documented as not decidable on this structure (copied fields are not represented): never reported'),
])

TYPES['210'] = dict(
    scalars=['MAX_REPETITIVE_SEQUENCES'],
    preamble='''
/// C2 (C06): in each repetitive sequence exactly one of 50a / 52a (one error per offending sequence)
pub open spec fn c2_spec_n(v: Seq<MT210Transaction>, n: int) -> Seq<Seq<char>>
    decreases n
{
    if n <= 0 { seq![] }
    else if v[n - 1].ordering_customer.is_some() == v[n - 1].ordering_institution.is_some() { c2_spec_n(v, n - 1).push("C06"@) }
    else { c2_spec_n(v, n - 1) }
}
pub open spec fn c2_spec(m: &MT210) -> Seq<Seq<char>> { c2_spec_n(m.transactions@, m.transactions@.len() as int) }
''',
    rules=[
        opt('validate_c1_repetitive_sequence_count', 'T10', 'm.transactions@.len() > 10',
            doc='C1 (T10): the repetitive sequence must not appear more than ten times'),
        vec('validate_c2_mutual_exclusivity', 'c2_spec', extra='''
body replace "for (idx, transaction) in self.transactions.iter().enumerate()" => "for transaction in &self.transactions"
body replace "idx + 1" => "0usize"
loop 0 iter=it
  invariant codes(errors@) == c2_spec_n(self.transactions@, it.index@ as int)
hint start
  broadcast use group_codes;
'''),
        stub('validate_c3_currency_consistency', 'enumerate().skip(1) iterator chain', ret='opt'),
    ])


TYPES['101'] = dict(
    preamble='''
pub open spec fn zero_amount(t: &MT101Transaction) -> bool { abs_lt(t.field_32b.amount, 0.01) }
pub open spec fn has_equi(t: &MT101Transaction) -> bool {
    t.field_23e.is_some() && exists|i: int| 0 <= i < t.field_23e.unwrap()@.len() && (#[trigger] t.field_23e.unwrap()@[i]).instruction_code@ == "EQUI"@
}
pub open spec fn any_tx(m: &MT101, p: spec_fn(MT101Transaction) -> bool) -> bool { exists|i: int| 0 <= i < m.transactions@.len() && p(#[trigger] m.transactions@[i]) }
pub open spec fn any_oc(m: &MT101) -> bool { exists|i: int| 0 <= i < m.transactions@.len() && (#[trigger] m.transactions@[i]).ordering_customer_tx.is_some() }
pub open spec fn all_oc(m: &MT101) -> bool { m.transactions@.len() > 0 && forall|i: int| 0 <= i < m.transactions@.len() ==> (#[trigger] m.transactions@[i]).ordering_customer_tx.is_some() }
pub open spec fn any_ip(m: &MT101) -> bool { exists|i: int| 0 <= i < m.transactions@.len() && (#[trigger] m.transactions@[i]).instructing_party_tx.is_some() }
pub open spec fn any_52(m: &MT101) -> bool { exists|i: int| 0 <= i < m.transactions@.len() && (#[trigger] m.transactions@[i]).field_52.is_some() }
''',
    helpers=[
        ('has_ordering_customer_in_seq_a', 'r == self.ordering_customer.is_some()'),
        ('has_ordering_customer_in_all_seq_b', 'r == all_oc(self)'),
        ('has_ordering_customer_in_any_seq_b', 'r == any_oc(self)'),
        ('has_instructing_party_in_seq_a', 'r == self.instructing_party.is_some()'),
        ('has_instructing_party_in_any_seq_b', 'r == any_ip(self)'),
        ('has_account_servicing_in_seq_a', 'r == self.field_52a.is_some()'),
        ('has_account_servicing_in_any_seq_b', 'r == any_52(self)'),
    ],
    rules=[
        each('validate_c1_fx_deal_reference', 'transactions', 'MT101Transaction',
             'one_if(t.field_36.is_some() && t.field_21f.is_none(), "D54"@)',
             doc='C1 (D54): per transaction, field 36 present => field 21F present'),
        each('validate_c2_amount_exchange', 'transactions', 'MT101Transaction',
             'one_if(if t.field_33b.is_some() { if zero_amount(t) { t.field_36.is_some() } else { t.field_36.is_none() } } else { t.field_36.is_some() }, "D60"@)',
             doc='C2 (D60): 33B present & amount != 0 => 36 mandatory; 33B present & amount = 0 => 36 not allowed; 33B absent => 36 not allowed'),
        opt('validate_c3_ordering_customer', 'D61',
            '(m.ordering_customer.is_some() && any_oc(m)) || (m.ordering_customer.is_none() && !all_oc(m))',
            doc='C3 (D61): field 50a (F/G/H) in sequence A or in every sequence B, never in both'),
        opt('validate_c4_instructing_party', 'D62', 'm.instructing_party.is_some() && any_ip(m)',
            doc='C4 (D62): field 50a (C/L) in sequence A or in sequence B occurrences, not both'),
        each('validate_c5_currency_codes', 'transactions', 'MT101Transaction',
             'one_if(t.field_33b.is_some() && t.field_33b.unwrap().currency@ == t.field_32b.currency@, "D68"@)',
             doc='C5 (D68): 33B present => its currency differs from 32B'),
        opt('validate_c6_account_servicing', 'D64', 'm.field_52a.is_some() && any_52(m)',
            doc='C6 (D64): field 52a in sequence A or in sequence B, not both'),
        each('validate_c7_intermediary', 'transactions', 'MT101Transaction',
             'one_if(t.field_56.is_some() && t.field_57.is_none(), "D65"@)',
             doc='C7 (D65): 56a present => 57a present'),
        stub('validate_c8_currency_consistency', 'enumerate().skip(1) iterator chain', ret='opt'),
        each('validate_c9_zero_amount', 'transactions', 'MT101Transaction',
             'if zero_amount(t) { if has_equi(t) { one_if(t.field_33b.is_none(), "E54"@) } else { one_if(t.field_33b.is_some(), "E54"@) + one_if(t.field_21f.is_some(), "E54"@) } } else { seq![] }',
             doc='C9 (E54): amount zero & 23E EQUI => 33B mandatory; amount zero & no EQUI => 33B and 21F not allowed'),
        stub('validate_field_23e', 'HashSet / nested code-table loops'),
    ])
