"""Rule oracle for C04 / C13: one entry per message type, written from the rule documentation of each
src/messages/mtNNN.rs (doc comment of the rule function: rule text + error code, and the `requirements` sentence in
the error constructor), NOT from the function bodies.

entry kinds
  opt(fn, code, when)            Option-returning rule: returns Some(error with `code`) iff `when` (a Verus spec
                                 expression over `m: &MTnnn`)
  vec(fn, spec, extra)           Vec-returning rule: codes(result) == spec(m); `spec` defined in the type's preamble;
                                 `extra` = loop invariants / hints for the real function
  stub(fn, why, ret)             rule left outside the contracts (declared assumption): only its determinism is used
helpers: (fn, ensures-expression[, extra])  small accessor functions the rules call
"""


def opt(fn, code, when, doc=None, extra=None):
    return dict(kind='opt', fn=fn, code=code, when=when, doc=doc, extra=extra)


def vec(fn, spec, extra=None, doc=None):
    return dict(kind='vec', fn=fn, spec=spec, extra=extra, doc=doc)


def stub(fn, why, ret='vec'):
    return dict(kind='stub', fn=fn, why=why, ret=ret)


NO_RULES = dict(rules=[])

TYPES = {}

# ---- types whose SR2025 specification has no network validated rules: the validator returns an empty list
for _t in ('111', '112', '190', '191', '199', '290', '291', '299', '900'):
    TYPES[_t] = dict(rules=[])

TYPES['205'] = dict(rules=[
    opt('validate_c1_intermediary_account_with', 'C81', 'm.intermediary.is_some() && m.account_with_institution.is_none()',
        doc='C1 (C81): if field 56a is present, field 57a must also be present'),
])

TYPES['202'] = dict(
    helpers=[
        ('has_intermediary_in_seq_a', 'r == self.field_56.is_some()'),
        ('has_account_with_in_seq_a', 'r == self.field_57.is_some()'),
        ('has_intermediary_in_seq_b', 'r == (self.sequence_b.is_some() && self.sequence_b.unwrap().intermediary.is_some())'),
        ('has_account_with_in_seq_b', 'r == (self.sequence_b.is_some() && self.sequence_b.unwrap().account_with_institution.is_some())'),
    ],
    rules=[
        opt('validate_c1_intermediary_seq_a', 'C81', 'm.field_56.is_some() && m.field_57.is_none()',
            doc='C1 (C81): 56a in sequence A => 57a in sequence A'),
        opt('validate_c2_intermediary_seq_b', 'C68',
            'm.sequence_b.is_some() && m.sequence_b.unwrap().intermediary.is_some() && m.sequence_b.unwrap().account_with_institution.is_none()',
            doc='C2 (C68): 56a in sequence B => 57a in sequence B'),
    ])

TYPES['910'] = dict(
    helpers=[('has_ordering_customer', 'r == self.field_50.is_some()'), ('has_ordering_institution', 'r == self.field_52.is_some()')],
    rules=[
        opt('validate_c1_ordering_party', 'C06', 'm.field_50.is_none() && m.field_52.is_none()',
            doc='C1 (C06): either field 50a or field 52a must be present'),
    ])

TYPES['196'] = dict(rules=[
    opt('validate_c1_field_79_or_copy', 'C31', 'false',
        doc='C1 (C31): documented as not decidable on this structure (copied fields are not represented): never reported'),
])

TYPES['210'] = dict(
    scalars=['MAX_REPETITIVE_SEQUENCES'],
    preamble='''
/// C2 (C06): in each repetitive sequence exactly one of 50a / 52a (one error per offending sequence)
pub open spec fn c2_spec_n(v: Seq<MT210Transaction>, n: int) -> Seq<Seq<char>>
    decreases n
{
    if n <= 0 { seq![] }
    else if v[n - 1].ordering_customer.is_some() == v[n - 1].ordering_institution.is_some() { c2_spec_n(v, n - 1).push("C06"@) }
    else { c2_spec_n(v, n - 1) }
}
pub open spec fn c2_spec(m: &MT210) -> Seq<Seq<char>> { c2_spec_n(m.transactions@, m.transactions@.len() as int) }
''',
    rules=[
        opt('validate_c1_repetitive_sequence_count', 'T10', 'm.transactions@.len() > 10',
            doc='C1 (T10): the repetitive sequence must not appear more than ten times'),
        vec('validate_c2_mutual_exclusivity', 'c2_spec', extra='''
body replace "for (idx, transaction) in self.transactions.iter().enumerate()" => "for transaction in &self.transactions"
body replace "idx + 1" => "0usize"
loop 0 iter=it
  invariant codes(errors@) == c2_spec_n(self.transactions@, it.index@ as int)
hint start
  broadcast use group_codes;
'''),
        stub('validate_c3_currency_consistency', 'enumerate().skip(1) iterator chain', ret='opt'),
    ])
