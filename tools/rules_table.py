"""Rule oracle for C04 / C13: one entry per message type, written from the rule documentation of each
src/messages/mtNNN.rs (doc comment of the rule function: rule text + error code, and the `requirements` sentence in
the error constructor), NOT from the function bodies.

entry kinds
  opt(fn, code, when)            Option-returning rule: returns Some(error with `code`) iff `when` (a Verus spec
                                 expression over `m: &MTnnn`)
  vec(fn, spec, extra)           Vec-returning rule: codes(result) == spec(m); `spec` defined in the type's preamble;
                                 `extra` = loop invariants / hints for the real function
  stub(fn, why, ret)             rule left outside the contracts (declared assumption): only its determinism is used
helpers: (fn, ensures-expression[, extra])  small accessor functions the rules call
"""


def opt(fn, code, when, doc=None, extra=None):
    return dict(kind='opt', fn=fn, code=code, when=when, doc=doc, extra=extra)


def vec(fn, spec, extra=None, doc=None):
    return dict(kind='vec', fn=fn, spec=spec, extra=extra, doc=doc)


def each(fn, coll, elem, tx, doc=None, extra=None):
    """Vec-returning rule that walks a repeated sequence `coll: Vec<elem>` and reports `tx` (a Seq<Seq<char>> expression
    over `t: &elem`) for each element, in order"""
    return dict(kind='each', fn=fn, coll=coll, elem=elem, tx=tx, doc=doc, extra=extra)


def ext(fn, include, spec, unit):
    """rule whose contract is proved in a hand-written unit; `spec` is defined in the shared include"""
    return dict(kind='ext', fn=fn, include=include, spec=spec, unit=unit)


def stub(fn, why, ret='vec'):
    return dict(kind='stub', fn=fn, why=why, ret=ret)


NO_RULES = dict(rules=[])

TYPES = {}

# ---- types whose SR2025 specification has no network validated rules: the validator returns an empty list
for _t in ('111', '112', '190', '191', '199', '290', '291', '299', '900'):
    TYPES[_t] = dict(rules=[])

TYPES['205'] = dict(rules=[
    opt('validate_c1_intermediary_account_with', 'C81', 'm.intermediary.is_some() && m.account_with_institution.is_none()',
        doc='C1 (C81): if field 56a is present, field 57a must also be present'),
])

TYPES['202'] = dict(
    helpers=[
        ('has_intermediary_in_seq_a', 'r == self.field_56.is_some()'),
        ('has_account_with_in_seq_a', 'r == self.field_57.is_some()'),
        ('has_intermediary_in_seq_b', 'r == (self.sequence_b.is_some() && self.sequence_b.unwrap().intermediary.is_some())'),
        ('has_account_with_in_seq_b', 'r == (self.sequence_b.is_some() && self.sequence_b.unwrap().account_with_institution.is_some())'),
    ],
    rules=[
        opt('validate_c1_intermediary_seq_a', 'C81', 'm.field_56.is_some() && m.field_57.is_none()',
            doc='C1 (C81): 56a in sequence A => 57a in sequence A'),
        opt('validate_c2_intermediary_seq_b', 'C68',
            'm.sequence_b.is_some() && m.sequence_b.unwrap().intermediary.is_some() && m.sequence_b.unwrap().account_with_institution.is_none()',
            doc='C2 (C68): 56a in sequence B => 57a in sequence B'),
    ])

TYPES['910'] = dict(
    helpers=[('has_ordering_customer', 'r == self.field_50.is_some()'), ('has_ordering_institution', 'r == self.field_52.is_some()')],
    rules=[
        opt('validate_c1_ordering_party', 'C06', 'm.field_50.is_none() && m.field_52.is_none()',
            doc='C1 (C06): either field 50a or field 52a must be present'),
    ])

TYPES['196'] = dict(rules=[
    opt('validate_c1_field_79_or_copy', 'C31', 'false',
        doc='C1 (C31): documented as not decidable on this structure (copied fields are not represented): never reported'),
])

TYPES['210'] = dict(
    scalars=['MAX_REPETITIVE_SEQUENCES'],
    preamble='''
/// C2 (C06): in each repetitive sequence exactly one of 50a / 52a (one error per offending sequence)
pub open spec fn c2_spec_n(v: Seq<MT210Transaction>, n: int) -> Seq<Seq<char>>
    decreases n
{
    if n <= 0 { seq![] }
    else if v[n - 1].ordering_customer.is_some() == v[n - 1].ordering_institution.is_some() { c2_spec_n(v, n - 1).push("C06"@) }
    else { c2_spec_n(v, n - 1) }
}
pub open spec fn c2_spec(m: &MT210) -> Seq<Seq<char>> { c2_spec_n(m.transactions@, m.transactions@.len() as int) }
''',
    rules=[
        opt('validate_c1_repetitive_sequence_count', 'T10', 'm.transactions@.len() > 10',
            doc='C1 (T10): the repetitive sequence must not appear more than ten times'),
        vec('validate_c2_mutual_exclusivity', 'c2_spec', extra='''
loop 0 iter=it
  invariant codes(errors@) == c2_spec_n(self.transactions@, it.index@ as int)
hint start
  broadcast use group_codes;
'''),
        opt('validate_c3_currency_consistency', 'C02',
            'exists|i: int| 1 <= i < m.transactions@.len() && (#[trigger] m.transactions@[i]).currency_amount.currency@ != m.transactions@[0].currency_amount.currency@',
            doc='C3 (C02): the currency code must be the same for all occurrences of field 32B',
            extra='''loop 0
  invariant forall|j: int| 1 <= j < idx ==> (#[trigger] self.transactions@[j]).currency_amount.currency@ == self.transactions@[0].currency_amount.currency@, first_currency@ == self.transactions@[0].currency_amount.currency@, self.transactions@.len() >= 1
hint start
  broadcast use group_codes;
'''),
    ])


TYPES['101'] = dict(
    preamble='''
pub open spec fn zero_amount(t: &MT101Transaction) -> bool { abs_lt(t.field_32b.amount, 0.01) }
pub open spec fn has_equi(t: &MT101Transaction) -> bool {
    t.field_23e.is_some() && exists|i: int| 0 <= i < t.field_23e.unwrap()@.len() && (#[trigger] t.field_23e.unwrap()@[i]).instruction_code@ == "EQUI"@
}
pub open spec fn any_tx(m: &MT101, p: spec_fn(MT101Transaction) -> bool) -> bool { exists|i: int| 0 <= i < m.transactions@.len() && p(#[trigger] m.transactions@[i]) }
pub open spec fn any_oc(m: &MT101) -> bool { exists|i: int| 0 <= i < m.transactions@.len() && (#[trigger] m.transactions@[i]).ordering_customer_tx.is_some() }
pub open spec fn all_oc(m: &MT101) -> bool { m.transactions@.len() > 0 && forall|i: int| 0 <= i < m.transactions@.len() ==> (#[trigger] m.transactions@[i]).ordering_customer_tx.is_some() }
pub open spec fn any_ip(m: &MT101) -> bool { exists|i: int| 0 <= i < m.transactions@.len() && (#[trigger] m.transactions@[i]).instructing_party_tx.is_some() }
pub open spec fn any_52(m: &MT101) -> bool { exists|i: int| 0 <= i < m.transactions@.len() && (#[trigger] m.transactions@[i]).field_52.is_some() }
''',
    helpers=[
        ('has_ordering_customer_in_seq_a', 'r == self.ordering_customer.is_some()'),
        ('has_ordering_customer_in_all_seq_b', 'r == all_oc(self)'),
        ('has_ordering_customer_in_any_seq_b', 'r == any_oc(self)'),
        ('has_instructing_party_in_seq_a', 'r == self.instructing_party.is_some()'),
        ('has_instructing_party_in_any_seq_b', 'r == any_ip(self)'),
        ('has_account_servicing_in_seq_a', 'r == self.field_52a.is_some()'),
        ('has_account_servicing_in_any_seq_b', 'r == any_52(self)'),
    ],
    rules=[
        each('validate_c1_fx_deal_reference', 'transactions', 'MT101Transaction',
             'one_if(t.field_36.is_some() && t.field_21f.is_none(), "D54"@)',
             doc='C1 (D54): per transaction, field 36 present => field 21F present'),
        each('validate_c2_amount_exchange', 'transactions', 'MT101Transaction',
             'one_if(if t.field_33b.is_some() { if zero_amount(t) { t.field_36.is_some() } else { t.field_36.is_none() } } else { t.field_36.is_some() }, "D60"@)',
             doc='C2 (D60): 33B present & amount != 0 => 36 mandatory; 33B present & amount = 0 => 36 not allowed; 33B absent => 36 not allowed'),
        opt('validate_c3_ordering_customer', 'D61',
            '(m.ordering_customer.is_some() && any_oc(m)) || (m.ordering_customer.is_none() && !all_oc(m))',
            doc='C3 (D61): field 50a (F/G/H) in sequence A or in every sequence B, never in both'),
        opt('validate_c4_instructing_party', 'D62', 'm.instructing_party.is_some() && any_ip(m)',
            doc='C4 (D62): field 50a (C/L) in sequence A or in sequence B occurrences, not both'),
        each('validate_c5_currency_codes', 'transactions', 'MT101Transaction',
             'one_if(t.field_33b.is_some() && t.field_33b.unwrap().currency@ == t.field_32b.currency@, "D68"@)',
             doc='C5 (D68): 33B present => its currency differs from 32B'),
        opt('validate_c6_account_servicing', 'D64', 'm.field_52a.is_some() && any_52(m)',
            doc='C6 (D64): field 52a in sequence A or in sequence B, not both'),
        each('validate_c7_intermediary', 'transactions', 'MT101Transaction',
             'one_if(t.field_56.is_some() && t.field_57.is_none(), "D65"@)',
             doc='C7 (D65): 56a present => 57a present'),
        opt('validate_c8_currency_consistency', 'D98',
            'm.field_21r.is_some() && exists|i: int| 1 <= i < m.transactions@.len() && (#[trigger] m.transactions@[i]).field_32b.currency@ != m.transactions@[0].field_32b.currency@',
            doc='C8 (D98): if field 21R is present, the currency code of field 32B must be the same in all occurrences of sequence B',
            extra='''body replace "self.field_21r.as_ref()?;" => "if self.field_21r.is_none() { return None; }"
loop 0
  invariant forall|j: int| 1 <= j < idx ==> (#[trigger] self.transactions@[j]).field_32b.currency@ == self.transactions@[0].field_32b.currency@, first_currency@ == self.transactions@[0].field_32b.currency@, self.transactions@.len() >= 1, self.field_21r.is_some()
hint start
  broadcast use group_codes;
'''),
        each('validate_c9_zero_amount', 'transactions', 'MT101Transaction',
             'if zero_amount(t) { if has_equi(t) { one_if(t.field_33b.is_none(), "E54"@) } else { one_if(t.field_33b.is_some(), "E54"@) + one_if(t.field_21f.is_some(), "E54"@) } } else { seq![] }',
             doc='C9 (E54): amount zero & 23E EQUI => 33B mandatory; amount zero & no EQUI => 33B and 21F not allowed'),
        ext('validate_field_23e', 'inc/mt101_23e_spec.vu', 'm101_23e_spec', 'rules_mt101_23e'),
    ])


def _any_b(T, Tx, f):
    return 'exists|i: int| 0 <= i < m.transactions@.len() && (#[trigger] m.transactions@[i]).%s.is_some()' % f


# ---- MT104 (direct debit): presence rules between sequence A and the occurrences of sequence B
_B104 = [('21e', 'field_21e'), ('26t', 'field_26t'), ('52a', 'field_52'), ('71a', 'field_71a'), ('77b', 'field_77b')]
TYPES['104'] = dict(
    consts=['MT104_VALID_23E_CODES_SEQ_A', 'MT104_VALID_23E_CODES_SEQ_B', 'CODE_WITH_ADDITIONAL_INFO'],
    preamble='''
/// field 23E of one sequence: T47 when the code is not in the list allowed there, D81 when the narrative subfield is used with a code other than OTHR
pub open spec fn f23e_codes(f: Field23E, allowed: Seq<&'static str>) -> Seq<Seq<char>> {
    one_if(!lits_contain(allowed, f.instruction_code@), "T47"@) + one_if(f.additional_info.is_some() && f.instruction_code@ != "OTHR"@, "D81"@)
}
/// the sum of the 32B amounts of the first n transactions, in order, with the (uninterpreted) float addition
pub open spec fn sum32b(v: Seq<MT104Transaction>, n: int) -> f64
    decreases n
{ if n <= 0 { 0.0f64 } else { vx::fadd(sum32b(v, n - 1), v[n - 1].field_32b.amount) } }
/// C11 (C02): the currencies of a field family in message order (sequence B occurrences, then the one of sequence C)
pub open spec fn ccy_32b(t: MT104Transaction) -> Option<Seq<char>> { Some(t.field_32b.currency@) }
pub open spec fn ccy_71g(t: MT104Transaction) -> Option<Seq<char>> { match t.field_71g { Some(f) => Some(f.currency@), None => None } }
pub open spec fn ccy_71f(t: MT104Transaction) -> Option<Seq<char>> { match t.field_71f { Some(f) => Some(f.currency@), None => None } }
pub open spec fn coll(v: Seq<MT104Transaction>, n: int, sel: spec_fn(MT104Transaction) -> Option<Seq<char>>) -> Seq<Seq<char>>
    decreases n
{ if n <= 0 { seq![] } else { coll(v, n - 1, sel) + (match sel(v[n - 1]) { Some(c) => seq![c], None => seq![] }) } }
pub open spec fn with_c(l: Seq<Seq<char>>, c: Option<Seq<char>>) -> Seq<Seq<char>> { match c { Some(x) => l.push(x), None => l } }
pub open spec fn rviews(v: Seq<&String>) -> Seq<Seq<char>> { Seq::new(v.len(), |i: int| v[i]@) }
pub open spec fn all_same(l: Seq<Seq<char>>) -> bool { forall|i: int| 0 <= i < l.len() ==> #[trigger] l[i] == l[0] }
pub open spec fn ccys_32b(m: &MT104) -> Seq<Seq<char>> { with_c(coll(m.transactions@, m.transactions@.len() as int, |t: MT104Transaction| ccy_32b(t)), match m.field_32b { Some(f) => Some(f.currency@), None => None }) }
pub open spec fn ccys_71g(m: &MT104) -> Seq<Seq<char>> { with_c(coll(m.transactions@, m.transactions@.len() as int, |t: MT104Transaction| ccy_71g(t)), match m.field_71g { Some(f) => Some(f.currency@), None => None }) }
pub open spec fn ccys_71f(m: &MT104) -> Seq<Seq<char>> { with_c(coll(m.transactions@, m.transactions@.len() as int, |t: MT104Transaction| ccy_71f(t)), match m.field_71f { Some(f) => Some(f.currency@), None => None }) }
pub open spec fn c11_spec(m: &MT104) -> Seq<Seq<char>> {
    one_if(!all_same(ccys_32b(m)), "C02"@) + one_if(!all_same(ccys_71g(m)), "C02"@) + one_if(!all_same(ccys_71f(m)), "C02"@)
}
/// C1 (C75): 23E in A = RFDD => 23E in every B; 23E in A present, not RFDD => 23E in no B; 23E absent in A => 23E in every B
pub open spec fn c1_viol(m: &MT104, t: MT104Transaction) -> bool {
    if m.field_23e.is_some() { if m.field_23e.unwrap().instruction_code@ == "RFDD"@ { t.field_23e.is_none() } else { t.field_23e.is_some() } } else { t.field_23e.is_none() }
}
pub open spec fn c1_fold(m: &MT104, n: int) -> Seq<Seq<char>>
    decreases n
{ if n <= 0 { seq![] } else { c1_fold(m, n - 1) + one_if(c1_viol(m, m.transactions@[n - 1]), "C75"@) } }
pub open spec fn c1_spec(m: &MT104) -> Seq<Seq<char>> { c1_fold(m, m.transactions@.len() as int) }
/// C12 (C96): RFDD in A => no 21E, 50a (A/K), 52a, 71F, 71G in any B (one error each) and no sequence C; otherwise no 21R in A and sequence C mandatory
pub open spec fn rfdd_a(m: &MT104) -> bool { m.field_23e.is_some() && m.field_23e.unwrap().instruction_code@ == "RFDD"@ }
pub open spec fn c12_tx(t: MT104Transaction) -> Seq<Seq<char>> {
    one_if(t.field_21e.is_some(), "C96"@) + one_if(t.creditor_tx.is_some(), "C96"@) + one_if(t.field_52.is_some(), "C96"@) + one_if(t.field_71f.is_some(), "C96"@) + one_if(t.field_71g.is_some(), "C96"@)
}
pub open spec fn c12_fold(v: Seq<MT104Transaction>, n: int) -> Seq<Seq<char>>
    decreases n
{ if n <= 0 { seq![] } else { c12_fold(v, n - 1) + c12_tx(v[n - 1]) } }
pub open spec fn c12_spec(m: &MT104) -> Seq<Seq<char>> {
    if rfdd_a(m) { c12_fold(m.transactions@, m.transactions@.len() as int) + one_if(m.field_32b.is_some(), "C96"@) }
    else { one_if(m.field_21r.is_some(), "C96"@) + one_if(m.field_32b.is_none(), "C96"@) }
}
pub open spec fn f23e_a_spec(m: &MT104) -> Seq<Seq<char>> { if m.field_23e.is_some() { f23e_codes(m.field_23e.unwrap(), seq!["AUTH", "NAUT", "OTHR", "RFDD", "RTND"]) } else { seq![] } }
pub open spec fn any_b(m: &MT104, p: spec_fn(MT104Transaction) -> bool) -> bool { exists|i: int| 0 <= i < m.transactions@.len() && p(#[trigger] m.transactions@[i]) }
pub open spec fn any_cred(m: &MT104) -> bool { exists|i: int| 0 <= i < m.transactions@.len() && (#[trigger] m.transactions@[i]).creditor_tx.is_some() }
pub open spec fn all_cred(m: &MT104) -> bool { m.transactions@.len() > 0 && forall|i: int| 0 <= i < m.transactions@.len() ==> (#[trigger] m.transactions@[i]).creditor_tx.is_some() }
pub open spec fn any_ip(m: &MT104) -> bool { exists|i: int| 0 <= i < m.transactions@.len() && (#[trigger] m.transactions@[i]).instructing_party_tx.is_some() }
pub open spec fn any_21e(m: &MT104) -> bool { exists|i: int| 0 <= i < m.transactions@.len() && (#[trigger] m.transactions@[i]).field_21e.is_some() }
pub open spec fn any_26t(m: &MT104) -> bool { exists|i: int| 0 <= i < m.transactions@.len() && (#[trigger] m.transactions@[i]).field_26t.is_some() }
pub open spec fn any_52(m: &MT104) -> bool { exists|i: int| 0 <= i < m.transactions@.len() && (#[trigger] m.transactions@[i]).field_52.is_some() }
pub open spec fn any_71a(m: &MT104) -> bool { exists|i: int| 0 <= i < m.transactions@.len() && (#[trigger] m.transactions@[i]).field_71a.is_some() }
pub open spec fn any_77b(m: &MT104) -> bool { exists|i: int| 0 <= i < m.transactions@.len() && (#[trigger] m.transactions@[i]).field_77b.is_some() }
pub open spec fn rtnd_a(m: &MT104) -> bool { m.field_23e.is_some() && m.field_23e.unwrap().instruction_code@ == "RTND"@ }
pub open spec fn any_71f(m: &MT104) -> bool { exists|i: int| 0 <= i < m.transactions@.len() && (#[trigger] m.transactions@[i]).field_71f.is_some() }
pub open spec fn any_71g(m: &MT104) -> bool { exists|i: int| 0 <= i < m.transactions@.len() && (#[trigger] m.transactions@[i]).field_71g.is_some() }
/// C6 (D79): 71F (resp. 71G) in some occurrence of sequence B <=> 71F (resp. 71G) in sequence C
pub open spec fn c6_spec(m: &MT104) -> Seq<Seq<char>> {
    one_if(any_71f(m) && m.field_71f.is_none(), "D79"@) + one_if(!any_71f(m) && m.field_71f.is_some(), "D79"@)
    + one_if(any_71g(m) && m.field_71g.is_none(), "D79"@) + one_if(!any_71g(m) && m.field_71g.is_some(), "D79"@)
}
/// C3 (D73): a field present in sequence A must not be present in any occurrence of sequence B (one error per field, in
/// the order 21E, 26T, 52a, 71A, 77B, 50a C/L)
pub open spec fn c3_spec(m: &MT104) -> Seq<Seq<char>> {
    one_if(m.field_21e.is_some() && any_21e(m), "D73"@) + one_if(m.field_26t.is_some() && any_26t(m), "D73"@) + one_if(m.field_52.is_some() && any_52(m), "D73"@)
    + one_if(m.field_71a.is_some() && any_71a(m), "D73"@) + one_if(m.field_77b.is_some() && any_77b(m), "D73"@) + one_if(m.instructing_party.is_some() && any_ip(m), "D73"@)
}
/// C4 (D77): 21E present => 50a (A/K) present in the same sequence; sequence A first, then one error per offending occurrence of B
pub open spec fn c4_fold(acc: Seq<Seq<char>>, v: Seq<MT104Transaction>, n: int) -> Seq<Seq<char>>
    decreases n
{ if n <= 0 { acc } else { c4_fold(acc, v, n - 1) + one_if(v[n - 1].field_21e.is_some() && v[n - 1].creditor_tx.is_none(), "D77"@) } }
pub open spec fn c4_spec(m: &MT104) -> Seq<Seq<char>> {
    c4_fold(one_if(m.field_21e.is_some() && m.creditor.is_none(), "D77"@), m.transactions@, m.transactions@.len() as int)
}
''',
    helpers=[
        ('has_sequence_c', 'r == self.field_32b.is_some()'),
        ('has_rtnd_in_seq_a', 'r == rtnd_a(self)'),
        ('has_rfdd_in_seq_a', 'r == rfdd_a(self)'),
        ('has_creditor_in_seq_a', 'r == self.creditor.is_some()'),
        ('has_creditor_in_all_seq_b', 'r == all_cred(self)'),
        ('has_creditor_in_any_seq_b', 'r == any_cred(self)'),
        ('has_instructing_party_in_seq_a', 'r == self.instructing_party.is_some()'),
        ('has_instructing_party_in_any_seq_b', 'r == any_ip(self)'),
        ('has_21e_in_seq_a', 'r == self.field_21e.is_some()'),
        ('has_21e_in_any_seq_b', 'r == any_21e(self)'),
        ('has_26t_in_seq_a', 'r == self.field_26t.is_some()'),
        ('has_26t_in_any_seq_b', 'r == any_26t(self)'),
        ('has_52a_in_seq_a', 'r == self.field_52.is_some()'),
        ('has_52a_in_any_seq_b', 'r == any_52(self)'),
        ('has_71a_in_seq_a', 'r == self.field_71a.is_some()'),
        ('has_71a_in_any_seq_b', 'r == any_71a(self)'),
        ('has_77b_in_seq_a', 'r == self.field_77b.is_some()'),
        ('has_77b_in_any_seq_b', 'r == any_77b(self)'),
        ('has_71f_in_any_seq_b', 'r == any_71f(self)'),
        ('has_71f_in_seq_c', 'r == self.field_71f.is_some()'),
        ('has_71g_in_any_seq_b', 'r == any_71g(self)'),
        ('has_71g_in_seq_c', 'r == self.field_71g.is_some()'),
    ],
    rules=[
        vec('validate_c1_field_23e_dependencies', 'c1_spec', doc='C1 (C75)', extra='''
loop 0 iter=it
  invariant self.field_23e.is_some() && self.field_23e.unwrap().instruction_code@ == "RFDD"@, codes(errors@) == c1_fold(self, it.index@ as int)
loop 1 iter=it
  invariant self.field_23e.is_some() && self.field_23e.unwrap().instruction_code@ != "RFDD"@, codes(errors@) == c1_fold(self, it.index@ as int)
loop 2 iter=it
  invariant self.field_23e.is_none(), codes(errors@) == c1_fold(self, it.index@ as int)
hint start
  broadcast use group_codes;
'''),
        opt('validate_c2_creditor_field', 'C76', '(m.creditor.is_some() && any_cred(m)) || (m.creditor.is_none() && !all_cred(m))',
            doc='C2 (C76): field 50a (A/K) in sequence A or in every occurrence of sequence B, never in both, never in neither'),
        vec('validate_c3_mutual_exclusivity', 'c3_spec', extra='hint start\n  broadcast use group_codes;'),
        vec('validate_c4_registration_reference', 'c4_spec', extra='''
loop 0 iter=it
  invariant codes(errors@) == c4_fold(one_if(self.field_21e.is_some() && self.creditor.is_none(), "D77"@), self.transactions@, it.index@ as int)
hint start
  broadcast use group_codes;
'''),
        opt('validate_c5_field_72_rtnd', 'C82', '(rtnd_a(m) && m.field_72.is_none()) || (!rtnd_a(m) && m.field_72.is_some())',
            doc='C5 (C82): field 72 present exactly when 23E of sequence A is RTND'),
        vec('validate_c6_charges_dependencies', 'c6_spec', extra='hint start\n  broadcast use group_codes;'),
        each('validate_c7_currency_amount_difference', 'transactions', 'MT104Transaction',
             'one_if(t.field_33b.is_some() && t.field_32b.currency@ == t.field_33b.unwrap().currency@ && vx::absdiff_lt(t.field_32b.amount, t.field_33b.unwrap().amount, 0.01f64), "D21"@)',
             doc='C7 (D21): with 33B present, the currency code or the amount (tolerance 0.01) or both differ from 32B; float arithmetic abstract', extra='fmtcat *'),
        each('validate_c8_exchange_rate', 'transactions', 'MT104Transaction',
             'one_if(if t.field_33b.is_some() { if t.field_32b.currency@ != t.field_33b.unwrap().currency@ { t.field_36.is_none() } else { t.field_36.is_some() } } else { t.field_36.is_some() }, "D75"@)',
             doc='C8 (D75): 33B present and currencies differ => 36 mandatory; 33B present and same currency => 36 not allowed; 33B absent => 36 not allowed'),
        opt('validate_c9_field_19', 'D80', 'm.field_32b.is_some() && (if vx::absdiff_lt(m.field_32b.unwrap().amount, sum32b(m.transactions@, m.transactions@.len() as int), 0.01f64) { m.field_19.is_some() } else { m.field_19.is_none() })',
            doc='C9 (D80): with sequence C, field 19 is absent when the 32B amount of sequence C equals the sum of the 32B amounts of sequence B (tolerance 0.01) and present otherwise; float arithmetic abstract',
            extra='''loop 0 iter=it
  invariant sum_of_amounts == sum32b(self.transactions@, it.index@ as int)
'''),
        opt('validate_c10_field_19_amount', 'C01', 'm.field_19.is_some() && vx::absdiff_gt(m.field_19.unwrap().amount, sum32b(m.transactions@, m.transactions@.len() as int), 0.01f64)',
            doc='C10 (C01): field 19, when present, equals the sum of the 32B amounts of sequence B (tolerance 0.01); float arithmetic abstract',
            extra='''fmtcat *
loop 0 iter=it
  invariant sum_of_amounts == sum32b(self.transactions@, it.index@ as int)
'''),
        vec('validate_c11_currency_consistency', 'c11_spec', doc='C11 (C02): one currency for all 32B of the message, one for all 71G (sequences B and C), one for all 71F; each family is reported once',
            extra='''fmtcat *
loop 0 iter=it
  invariant rviews(currencies_32b@) == coll(self.transactions@, it.index@ as int, |t: MT104Transaction| ccy_32b(t))
loop 1
  invariant_except_break codes(errors@) == e0, forall|j: int| 0 <= j < k__0 ==> #[trigger] l0[j] == l0[0]
  invariant k__0 <= currencies_32b@.len(), rviews(currencies_32b@) == l0, first_currency_32b@ == l0[0], l0.len() >= 1
  ensures codes(errors@) == e0 + one_if(!all_same(l0), "C02"@)
loop 2 iter=it
  invariant rviews(currencies_71g@) == coll(self.transactions@, it.index@ as int, |t: MT104Transaction| ccy_71g(t))
loop 3
  invariant_except_break codes(errors@) == e1, forall|j: int| 0 <= j < k__1 ==> #[trigger] l1[j] == l1[0]
  invariant k__1 <= currencies_71g@.len(), rviews(currencies_71g@) == l1, first_currency_71g@ == l1[0], l1.len() >= 1
  ensures codes(errors@) == e1 + one_if(!all_same(l1), "C02"@)
loop 4 iter=it
  invariant rviews(currencies_71f@) == coll(self.transactions@, it.index@ as int, |t: MT104Transaction| ccy_71f(t))
loop 5
  invariant_except_break codes(errors@) == e2, forall|j: int| 0 <= j < k__2 ==> #[trigger] l2[j] == l2[0]
  invariant k__2 <= currencies_71f@.len(), rviews(currencies_71f@) == l2, first_currency_71f@ == l2[0], l2.len() >= 1
  ensures codes(errors@) == e2 + one_if(!all_same(l2), "C02"@)
hint start
  broadcast use group_codes;
hint before "if !currencies_32b.is_empty()"
  let ghost e0 = codes(errors@);
  let ghost l0 = rviews(currencies_32b@);
  proof { assert(l0 =~= ccys_32b(self)); }
hint before "let mut currencies_71g"
  proof { assert(codes(errors@) == e0 + one_if(!all_same(l0), "C02"@)); }
hint before "if !currencies_71g.is_empty()"
  let ghost e1 = codes(errors@);
  let ghost l1 = rviews(currencies_71g@);
  proof { assert(l1 =~= ccys_71g(self)); }
hint before "let mut currencies_71f"
  proof { assert(codes(errors@) == e1 + one_if(!all_same(l1), "C02"@)); }
hint before "if !currencies_71f.is_empty()"
  let ghost e2 = codes(errors@);
  let ghost l2 = rviews(currencies_71f@);
  proof { assert(l2 =~= ccys_71f(self)); }
hint before "break;" #1
  proof { assert(l0[k__0 as int] == currencies_32b@[k__0 as int]@); assert(l0[k__0 as int] != l0[0]); assert(!all_same(l0)); }
hint before "break;" #2
  proof { assert(l1[k__1 as int] == currencies_71g@[k__1 as int]@); assert(l1[k__1 as int] != l1[0]); assert(!all_same(l1)); }
hint before "break;" #3
  proof { assert(l2[k__2 as int] == currencies_71f@[k__2 as int]@); assert(l2[k__2 as int] != l2[0]); assert(!all_same(l2)); }
'''),
        vec('validate_c12_rfdd_comprehensive', 'c12_spec', doc='C12 (C96)', extra='''
loop 0 iter=it
  invariant has_rfdd == rfdd_a(self), codes(errors@) == c12_fold(self.transactions@, it.index@ as int)
hint start
  broadcast use group_codes;
'''),
        vec('validate_field_23e_seq_a', 'f23e_a_spec', extra='hint start\n  broadcast use group_codes;\nfmtcat *',
            doc='23E in sequence A: T47 unless AUTH, NAUT, OTHR, RFDD, RTND; D81 when additional information is used with a code other than OTHR'),
        each('validate_field_23e_seq_b', 'transactions', 'MT104Transaction',
             'if t.field_23e.is_some() { f23e_codes(t.field_23e.unwrap(), seq!["AUTH", "NAUT", "OTHR"]) } else { seq![] }',
             doc='23E in sequence B: T47 unless AUTH, NAUT, OTHR; D81 when additional information is used with a code other than OTHR',
             extra='fmtcat *'),
    ])

# ---- MT110: cheque advice
TYPES['110'] = dict(
    preamble='pub open spec fn ccy110(c: MT110Cheque) -> Seq<char> { match c.field_32 { Field32AB::A(a) => a.currency@, Field32AB::B(b) => b.currency@ } }',
    rules=[
        opt('validate_c1_max_repetitions', 'T10', 'm.cheques@.len() > 10', doc='C1 (T10): the repetitive sequence must not be present more than ten times'),
        opt('validate_c2_currency_consistency', 'C02',
            'exists|i: int| 1 <= i < m.cheques@.len() && ccy110(#[trigger] m.cheques@[i]) != ccy110(m.cheques@[0])',
            doc='C2 (C02): the currency code in field 32a must be the same for all occurrences',
            extra='''loop 0
  invariant forall|j: int| 1 <= j < idx ==> ccy110(#[trigger] self.cheques@[j]) == ccy110(self.cheques@[0]), first_currency@ == ccy110(self.cheques@[0]), self.cheques@.len() >= 1
hint start
  broadcast use group_codes;
'''),
    ])

# ---- MT192 / MT292 / MT296: C1 on field 79 vs the copy of the original fields
TYPES['192'] = dict(
    consts=['MT192_VALID_79_CODES'],
    preamble='''
/// "/CODE/...": the text between the leading slash and the next one (or the end of the line), when it is four bytes long
pub open spec fn slash_code(l: Seq<char>) -> Option<Seq<char>> {
    if l.len() > 0 && l[0] == '/' {
        let t = l.subrange(1, l.len() as int);
        let code = t.subrange(0, ch_pos(t, '/'));
        if vstd::utf8::encode_utf8(code).len() == 4 { Some(code) } else { None }
    } else { None }
}
pub open spec fn f79_code(m: &MT192) -> Option<Seq<char>> {
    if m.field_79.is_some() && m.field_79.unwrap().information@.len() > 0 { slash_code(m.field_79.unwrap().information@[0]@) } else { None }
}
pub proof fn lemma_ch_pos_bound(s: Seq<char>, ch: char)
    ensures 0 <= ch_pos(s, ch) <= s.len()
    decreases s.len()
{ if s.len() > 0 && s[0] != ch { lemma_ch_pos_bound(s.subrange(1, s.len() as int), ch); } }
/// a line that starts with the separator splits into an empty first piece and, second, the text up to the next separator
pub proof fn lemma_split_leading(l: Seq<char>, ch: char)
    requires l.len() > 0, l[0] == ch
    ensures split_ch(l, ch).len() >= 2, split_ch(l, ch)[1] == l.subrange(1, l.len() as int).subrange(0, ch_pos(l.subrange(1, l.len() as int), ch))
{
    let t = l.subrange(1, l.len() as int);
    lemma_ch_pos_bound(t, ch);
    reveal_with_fuel(split_ch, 2);
    assert(ch_pos(l, ch) == 0);
    assert(l.subrange(1, l.len() as int) == t);
    let i = ch_pos(t, ch);
    if i >= t.len() { assert(t.subrange(0, i) =~= t); }
}
pub open spec fn valid_79_codes() -> Seq<&'static str> { seq!["AGNT", "AM09", "COVR", "CURR", "CUST", "CUTA", "DUPL", "FRAD", "TECH", "UPAY"] }
pub open spec fn f79_spec(m: &MT192) -> Seq<Seq<char>> { one_if(f79_code(m).is_some() && !lits_contain(valid_79_codes(), f79_code(m).unwrap()), "T47"@) }
''',
    helpers=[('has_field_79', 'r == self.field_79.is_some()'),
             ('get_field_79_cancellation_code', 'r.is_some() == f79_code(self).is_some() && (r.is_some() ==> r.unwrap()@ == f79_code(self).unwrap())', '''hint start
  broadcast use {crate::vx::axiom_slice_chars, crate::vx::axiom_cidx};
hint after "let parts: Vec<&str> ="
  proof { let l = first_line@; vx::axiom_split_ch(l, '/'); if l.len() > 0 && l[0] == '/' { lemma_split_leading(l, '/'); } }
''')],
    rules=[
        opt('validate_c1_field_79_or_copy', 'C25', 'm.field_79.is_none()',
            doc='C1 (C25): field 79 or a copy of the mandatory fields must be present (the copy is not represented: 79 is required)'),
        vec('validate_field_79_codes', 'f79_spec', doc='T47: a cancellation reason given as /CODE/ in the first line of field 79 must be one of the allowed codes',
            extra='fmtcat *\nhint start\n  broadcast use group_codes;'),
    ])

# ---- MT292 / MT296: field 79 and the copy of the original message's fields
TYPES['292'] = dict(
    helpers=[('has_field_79', 'r == self.field_79.is_some()'), ('has_original_fields', 'r == (self.original_fields@.len() != 0)')],
    rules=[
        opt('validate_c1_field_79_or_original_fields', 'C25', 'm.field_79.is_none() && m.original_fields@.len() == 0',
            doc='C1 (C25): field 79 or a copy of at least the mandatory fields of the original message or both must be present'),
    ])
TYPES['296'] = dict(
    helpers=[('has_field_79', 'r == self.field_79.is_some()'), ('has_original_fields', 'r == (self.original_fields@.len() != 0)')],
    rules=[
        opt('validate_c1_field_79_or_copy', 'C31', 'm.field_79.is_some() && m.original_fields@.len() != 0',
            doc='C1 (C31): field 79 or a copy of the fields of the message the answer relates to, but not both'),
    ])

# ---- MT204: C3 (T10)
TYPES['204'] = dict(
    scalars=['MAX_SEQUENCE_B_OCCURRENCES'],
    rules=[
        stub('validate_c1_sum_of_amounts', 'floating point sum', ret='opt'),
        stub('validate_c2_currency_consistency', 'HashSet of currencies', ret='opt'),
        opt('validate_c3_max_sequences', 'T10', 'm.transactions@.len() > 10', doc='C3 (T10): sequence B must not appear more than ten times'),
    ])

# ---- MT935: C1 (T10)
TYPES['935'] = dict(
    helpers=[('has_field_23', 'r == seq.field_23.is_some()'), ('has_field_25', 'r == seq.field_25.is_some()')],
    rules=[
        opt('validate_c1_sequence_occurrence', 'T10', 'm.rate_changes@.len() == 0 || m.rate_changes@.len() > 10',
            doc='C1 (T10): the repetitive sequence must appear at least once and not more than ten times'),
        each('validate_c2_field_23_25_mutual_exclusivity', 'rate_changes', 'MT935RateChange', 'one_if(t.field_23.is_some() == t.field_25.is_some(), "C83"@)',
             doc='C2 (C83): either field 23 or field 25, but not both, must be present in each repetitive sequence'),
        ext('validate_field_23', 'inc/mt935_fields_spec.vu', 'm935_23_spec', 'rules_mt935_fields'),
        ext('validate_field_37h', 'inc/mt935_fields_spec.vu', 'm935_37h_spec', 'rules_mt935_fields'),
    ])


# ---- MT107 (general direct debit): the presence rules parallel to MT104
TYPES['107'] = dict(
    consts=['MT107_VALID_23E_CODES'],
    preamble='''
/// field 23E of one sequence: T47 unless AUTH, NAUT, OTHR, RTND; D81 when the narrative subfield is used with a code other than OTHR
pub open spec fn f23e_codes(f: Option<Field23E>) -> Seq<Seq<char>> {
    if f.is_some() { one_if(!lits_contain(seq!["AUTH", "NAUT", "OTHR", "RTND"], f.unwrap().instruction_code@), "T47"@) + one_if(f.unwrap().additional_info.is_some() && f.unwrap().instruction_code@ != "OTHR"@, "D81"@) } else { seq![] }
}
pub open spec fn f23e_fold(acc: Seq<Seq<char>>, v: Seq<MT107Transaction>, n: int) -> Seq<Seq<char>>
    decreases n
{ if n <= 0 { acc } else { f23e_fold(acc, v, n - 1) + f23e_codes(v[n - 1].field_23e) } }
pub open spec fn f23e_spec(m: &MT107) -> Seq<Seq<char>> { f23e_fold(f23e_codes(m.field_23e), m.transactions@, m.transactions@.len() as int) }
pub open spec fn any_cred(m: &MT107) -> bool { exists|i: int| 0 <= i < m.transactions@.len() && (#[trigger] m.transactions@[i]).creditor_tx.is_some() }
pub open spec fn all_cred(m: &MT107) -> bool { m.transactions@.len() > 0 && forall|i: int| 0 <= i < m.transactions@.len() ==> (#[trigger] m.transactions@[i]).creditor_tx.is_some() }
pub open spec fn any_23e(m: &MT107) -> bool { exists|i: int| 0 <= i < m.transactions@.len() && (#[trigger] m.transactions@[i]).field_23e.is_some() }
pub open spec fn all_23e(m: &MT107) -> bool { m.transactions@.len() > 0 && forall|i: int| 0 <= i < m.transactions@.len() ==> (#[trigger] m.transactions@[i]).field_23e.is_some() }
pub open spec fn any_ip(m: &MT107) -> bool { exists|i: int| 0 <= i < m.transactions@.len() && (#[trigger] m.transactions@[i]).instructing_party_tx.is_some() }
pub open spec fn any_21e(m: &MT107) -> bool { exists|i: int| 0 <= i < m.transactions@.len() && (#[trigger] m.transactions@[i]).field_21e.is_some() }
pub open spec fn any_26t(m: &MT107) -> bool { exists|i: int| 0 <= i < m.transactions@.len() && (#[trigger] m.transactions@[i]).field_26t.is_some() }
pub open spec fn any_52(m: &MT107) -> bool { exists|i: int| 0 <= i < m.transactions@.len() && (#[trigger] m.transactions@[i]).field_52.is_some() }
pub open spec fn any_71a(m: &MT107) -> bool { exists|i: int| 0 <= i < m.transactions@.len() && (#[trigger] m.transactions@[i]).field_71a.is_some() }
pub open spec fn any_77b(m: &MT107) -> bool { exists|i: int| 0 <= i < m.transactions@.len() && (#[trigger] m.transactions@[i]).field_77b.is_some() }
pub open spec fn any_71f(m: &MT107) -> bool { exists|i: int| 0 <= i < m.transactions@.len() && (#[trigger] m.transactions@[i]).field_71f.is_some() }
pub open spec fn any_71g(m: &MT107) -> bool { exists|i: int| 0 <= i < m.transactions@.len() && (#[trigger] m.transactions@[i]).field_71g.is_some() }
pub open spec fn sum32b(v: Seq<MT107Transaction>, n: int) -> f64
    decreases n
{ if n <= 0 { 0.0f64 } else { vx::fadd(sum32b(v, n - 1), v[n - 1].field_32b.amount) } }
pub open spec fn c8_spec(m: &MT107) -> Seq<Seq<char>> {
    let sum = sum32b(m.transactions@, m.transactions@.len() as int);
    if m.transactions@.len() == 0 { seq![] }
    else if any_71f(m) || any_71g(m) {
        if m.field_19.is_some() { one_if(vx::absdiff_ge(m.field_19.unwrap().amount, sum, 0.01f64), "C01"@) } else { seq!["D80"@] }
    } else {
        one_if(vx::absdiff_ge(m.field_32b.amount, sum, 0.01f64), "D80"@) + one_if(m.field_19.is_some(), "D80"@)
    }
}
/// C9 (C02), one transaction against the reference fields of sequence C
pub open spec fn c9_of(m: &MT107, t: &MT107Transaction) -> Seq<Seq<char>> {
    one_if(t.field_32b.currency@ != m.field_32b.currency@, "C02"@)
    + one_if(t.field_71f.is_some() && m.field_71f.is_some() && t.field_71f.unwrap().currency@ != m.field_71f.unwrap().currency@, "C02"@)
    + one_if(t.field_71g.is_some() && t.field_71g.unwrap().currency@ != m.field_32b.currency@, "C02"@)
    + one_if(t.field_71g.is_some() && m.field_71g.is_some() && t.field_71g.unwrap().currency@ != m.field_71g.unwrap().currency@, "C02"@)
}
pub open spec fn c9_fold(m: &MT107, v: Seq<MT107Transaction>, n: int) -> Seq<Seq<char>>
    decreases n
{ if n <= 0 { seq![] } else { c9_fold(m, v, n - 1) + c9_of(m, &v[n - 1]) } }
pub open spec fn c9_spec(m: &MT107) -> Seq<Seq<char>> { c9_fold(m, m.transactions@, m.transactions@.len() as int) }
pub open spec fn rtnd_a(m: &MT107) -> bool { m.field_23e.is_some() && m.field_23e.unwrap().instruction_code@ == "RTND"@ }
/// C2 (D73): order 21E, 26T, 77B, 71A, 52a, 50a C/L
pub open spec fn c2_spec(m: &MT107) -> Seq<Seq<char>> {
    one_if(m.field_21e.is_some() && any_21e(m), "D73"@) + one_if(m.field_26t.is_some() && any_26t(m), "D73"@) + one_if(m.field_77b.is_some() && any_77b(m), "D73"@)
    + one_if(m.field_71a.is_some() && any_71a(m), "D73"@) + one_if(m.field_52.is_some() && any_52(m), "D73"@) + one_if(m.instructing_party.is_some() && any_ip(m), "D73"@)
}
pub open spec fn c3_fold(acc: Seq<Seq<char>>, v: Seq<MT107Transaction>, n: int) -> Seq<Seq<char>>
    decreases n
{ if n <= 0 { acc } else { c3_fold(acc, v, n - 1) + one_if(v[n - 1].field_21e.is_some() && v[n - 1].creditor_tx.is_none(), "D77"@) } }
pub open spec fn c3_spec(m: &MT107) -> Seq<Seq<char>> {
    c3_fold(one_if(m.field_21e.is_some() && m.creditor.is_none(), "D77"@), m.transactions@, m.transactions@.len() as int)
}
/// C1 (D86): 23E, and likewise 50a (A/K), in sequence A or in every occurrence of sequence B, never in both
pub open spec fn c1_spec(m: &MT107) -> Seq<Seq<char>> {
    one_if((m.field_23e.is_some() && any_23e(m)) || (m.field_23e.is_none() && !all_23e(m)), "D86"@)
    + one_if((m.creditor.is_some() && any_cred(m)) || (m.creditor.is_none() && !all_cred(m)), "D86"@)
}
pub open spec fn c5_spec(m: &MT107) -> Seq<Seq<char>> {
    one_if(any_71f(m) && m.field_71f.is_none(), "D79"@) + one_if(m.field_71f.is_some() && !any_71f(m), "D79"@)
    + one_if(any_71g(m) && m.field_71g.is_none(), "D79"@) + one_if(m.field_71g.is_some() && !any_71g(m), "D79"@)
}
''',
    helpers=[
        ('has_23e_in_seq_a', 'r == self.field_23e.is_some()'),
        ('has_23e_in_all_seq_b', 'r == all_23e(self)'),
        ('has_23e_in_any_seq_b', 'r == any_23e(self)'),
        ('has_creditor_in_seq_a', 'r == self.creditor.is_some()'),
        ('has_creditor_in_all_seq_b', 'r == all_cred(self)'),
        ('has_creditor_in_any_seq_b', 'r == any_cred(self)'),
        ('has_instructing_party_in_seq_a', 'r == self.instructing_party.is_some()'),
        ('has_instructing_party_in_any_seq_b', 'r == any_ip(self)'),
        ('has_21e_in_seq_a', 'r == self.field_21e.is_some()'),
        ('has_21e_in_any_seq_b', 'r == any_21e(self)'),
        ('has_26t_in_seq_a', 'r == self.field_26t.is_some()'),
        ('has_26t_in_any_seq_b', 'r == any_26t(self)'),
        ('has_77b_in_seq_a', 'r == self.field_77b.is_some()'),
        ('has_77b_in_any_seq_b', 'r == any_77b(self)'),
        ('has_71a_in_seq_a', 'r == self.field_71a.is_some()'),
        ('has_71a_in_any_seq_b', 'r == any_71a(self)'),
        ('has_52a_in_seq_a', 'r == self.field_52.is_some()'),
        ('has_52a_in_any_seq_b', 'r == any_52(self)'),
        ('has_71f_in_seq_b', 'r == any_71f(self)'),
        ('has_71f_in_seq_c', 'r == self.field_71f.is_some()'),
        ('has_71g_in_seq_b', 'r == any_71g(self)'),
        ('has_71g_in_seq_c', 'r == self.field_71g.is_some()'),
    ],
    rules=[
        vec('validate_c1_23e_and_creditor_placement', 'c1_spec', extra='hint start\n  broadcast use group_codes;'),
        vec('validate_c2_seq_a_b_mutual_exclusivity', 'c2_spec', extra='hint start\n  broadcast use group_codes;'),
        vec('validate_c3_registration_creditor_dependency', 'c3_spec', extra='''
loop 0 iter=it
  invariant codes(errors@) == c3_fold(one_if(self.field_21e.is_some() && self.creditor.is_none(), "D77"@), self.transactions@, it.index@ as int)
hint start
  broadcast use group_codes;
'''),
        opt('validate_c4_rtnd_field_72_dependency', 'C82', '(rtnd_a(m) && m.field_72.is_none()) || (!rtnd_a(m) && m.field_72.is_some())',
            doc='C4 (C82): field 72 present exactly when 23E of sequence A is RTND'),
        vec('validate_c5_charges_fields_consistency', 'c5_spec', extra='hint start\n  broadcast use group_codes;'),
        each('validate_c6_field_33b_32b_comparison', 'transactions', 'MT107Transaction',
             'one_if(t.field_33b.is_some() && t.field_32b.currency@ == t.field_33b.unwrap().currency@ && vx::absdiff_lt(t.field_32b.amount, t.field_33b.unwrap().amount, 0.01f64), "D21"@)',
             doc='C6 (D21): with 33B present, the currency code or the amount (tolerance 0.01) or both differ from 32B; float arithmetic abstract', extra='fmtcat *'),
        each('validate_c7_exchange_rate_dependency', 'transactions', 'MT107Transaction',
             'one_if(if t.field_33b.is_some() { if t.field_32b.currency@ != t.field_33b.unwrap().currency@ { t.field_36.is_none() } else { t.field_36.is_some() } } else { t.field_36.is_some() }, "D75"@)',
             doc='C7 (D75): 33B present and currencies differ => 36 mandatory; otherwise 36 not allowed'),
        vec('validate_c8_sum_of_amounts', 'c8_spec', doc='C8 (C01 / D80): with charges in sequence B the sum of the 32B amounts is in field 19 (mandatory, equal within 0.01); without charges it is the 32B amount of sequence C and field 19 is absent; float arithmetic abstract',
            extra='''fmtcat *
loop 0 iter=it
  invariant sum_of_amounts == sum32b(self.transactions@, it.index@ as int), self.transactions@.len() > 0, codes(errors@) == Seq::<Seq<char>>::empty()
hint start
  broadcast use group_codes;
'''),
        vec('validate_c9_currency_consistency', 'c9_spec', doc='C9 (C02): 32B and 71G carry one currency in sequences B and C (the settlement currency of sequence C), 71F carries one currency in sequences B and C',
            extra='''fmtcat *
loop 0 iter=it
  invariant self.transactions@.len() > 0, codes(errors@) == c9_fold(self, self.transactions@, it.index@ as int), settlement_currency@ == self.field_32b.currency@, ref_71f_currency.is_some() == self.field_71f.is_some(), ref_71f_currency.is_some() ==> ref_71f_currency.unwrap()@ == self.field_71f.unwrap().currency@, ref_71g_currency.is_some() == self.field_71g.is_some(), ref_71g_currency.is_some() ==> ref_71g_currency.unwrap()@ == self.field_71g.unwrap().currency@
hint start
  broadcast use group_codes;
'''),
        vec('validate_field_23e', 'f23e_spec', doc='23E in sequence A and in every sequence B: T47 unless AUTH, NAUT, OTHR, RTND; D81 when additional information is used with a code other than OTHR',
            extra='''fmtcat *
loop 0 iter=it
  invariant codes(errors@) == f23e_fold(f23e_codes(self.field_23e), self.transactions@, it.index@ as int)
hint start
  broadcast use group_codes;
'''),
    ])


# ---- MT920 (request message): one group of errors per repetitive sequence
TYPES['920'] = dict(
    consts=['VALID_MESSAGE_TYPES'],
    preamble='''
/// T88: field 12 must contain 940, 941, 942 or 950
pub open spec fn valid_type(c: Seq<char>) -> bool { c == "940"@ || c == "941"@ || c == "942"@ || c == "950"@ }
''',
    rules=[
        each('validate_t88_message_type', 'sequence', 'MT920Sequence', 'one_if(!valid_type(t.field_12.type_code@), "T88"@)',
             doc='T88: field 12 must contain one of 940, 941, 942, 950',
             extra='hint start\n  proof { reveal_strlit("940"); reveal_strlit("941"); reveal_strlit("942"); reveal_strlit("950"); }'),
        each('validate_c1_field_34f_requirement', 'sequence', 'MT920Sequence', 'one_if(t.field_12.type_code@ == "942"@ && t.floor_limit_debit.is_none(), "C22"@)',
             doc='C1 (C22): field 12 = 942 => field 34F debit (or debit and credit) must be present'),
        each('validate_c2_dc_mark_usage', 'sequence', 'MT920Sequence',
             'if t.floor_limit_debit.is_some() && t.floor_limit_credit.is_none() { one_if(t.floor_limit_debit.unwrap().indicator.is_some(), "C23"@) } else if t.floor_limit_debit.is_some() && t.floor_limit_credit.is_some() { one_if(t.floor_limit_debit.unwrap().indicator != Some(\'D\'), "C23"@) + one_if(t.floor_limit_credit.unwrap().indicator != Some(\'C\'), "C23"@) } else { seq![] }',
             doc='C2 (C23): one 34F => no D/C mark; two 34F => first D, second C'),
        each('validate_c3_currency_consistency', 'sequence', 'MT920Sequence',
             'one_if(t.floor_limit_debit.is_some() && t.floor_limit_credit.is_some() && t.floor_limit_debit.unwrap().currency@ != t.floor_limit_credit.unwrap().currency@, "C40"@)',
             doc='C3 (C40): the currency of the two 34F of one sequence must be the same'),
    ])


# ---- MT940 / MT942: the structural rules (documented as guaranteed by the data model: never reported) and the D/C mark rule
TYPES['940'] = dict(
    includes=['inc/cprefix.vu'],
    preamble='''pub open spec fn none_spec(m: &MT940) -> Seq<Seq<char>> { seq![] }
/// C2 (C27): the first two characters of the currency code of 62F, 64 and every 65 equal those of 60F (one error per field)
pub open spec fn c2_head(m: &MT940) -> Seq<Seq<char>> {
    one_if(cprefix(m.field_62f.currency@) != cprefix(m.field_60f.currency@), "C27"@)
    + one_if(m.field_64.is_some() && cprefix(m.field_64.unwrap().currency@) != cprefix(m.field_60f.currency@), "C27"@)
}
pub open spec fn c2_65(acc: Seq<Seq<char>>, m: &MT940, v: Seq<Field65>, n: int) -> Seq<Seq<char>>
    decreases n
{ if n <= 0 { acc } else { c2_65(acc, m, v, n - 1) + one_if(cprefix(v[n - 1].currency@) != cprefix(m.field_60f.currency@), "C27"@) } }
pub open spec fn c2_spec(m: &MT940) -> Seq<Seq<char>> {
    if m.field_65.is_some() { c2_65(c2_head(m), m, m.field_65.unwrap()@, m.field_65.unwrap()@.len() as int) } else { c2_head(m) }
}''',
    helpers=[
        ('get_field_60f_currency', 'r@ == self.field_60f.currency@'),
        ('get_field_62f_currency', 'r@ == self.field_62f.currency@'),
        ('get_field_64_currency', 'r.is_some() == self.field_64.is_some() && (r.is_some() ==> r.unwrap()@ == self.field_64.unwrap().currency@)'),
        ('get_currency_prefix', 'r@ == cprefix(currency@)'),
    ],
    rules=[
        vec('validate_c1_field_86_follows_61', 'none_spec', doc='C1 (C24): documented as enforced by the message structure: never reported'),
        vec('validate_c2_currency_consistency', 'c2_spec', doc='C2 (C27)', extra='''
fmtcat *
loop 0 iter=it
  invariant reference_prefix@ == cprefix(self.field_60f.currency@), codes(errors@) == c2_65(c2_head(self), self, field_65_vec@, it.index@ as int)
hint start
  broadcast use group_codes;
'''),
    ])
TYPES['942'] = dict(
    includes=['inc/cprefix.vu'],
    preamble='''pub open spec fn none_spec(m: &MT942) -> Seq<Seq<char>> { seq![] }
/// C1 (C27): the first two characters of the currency code of the second 34F, of 90D and of 90C equal those of the first 34F
pub open spec fn base942(m: &MT942) -> Seq<char> { cprefix(m.floor_limit_debit.currency@) }
pub open spec fn c1_spec(m: &MT942) -> Seq<Seq<char>> {
    one_if(m.floor_limit_credit.is_some() && cprefix(m.floor_limit_credit.unwrap().currency@) != base942(m), "C27"@)
    + one_if(m.field_90d.is_some() && cprefix(m.field_90d.unwrap().currency@) != base942(m), "C27"@)
    + one_if(m.field_90c.is_some() && cprefix(m.field_90c.unwrap().currency@) != base942(m), "C27"@)
}''',
    helpers=[('get_base_currency', 'r@ == base942(self)')],
    rules=[
        vec('validate_c1_currency_consistency', 'c1_spec', doc='C1 (C27)', extra='hint start\n  broadcast use group_codes;\nfmtcat *'),
        opt('validate_c2_floor_limit_dc_mark', 'C23',
            "if m.floor_limit_credit.is_some() { m.floor_limit_debit.indicator != Some('D') || m.floor_limit_credit.unwrap().indicator != Some('C') } else { m.floor_limit_debit.indicator.is_some() }",
            doc='C2 (C23): one 34F => no D/C mark; two 34F => first D, second C', extra='fmtcat *'),
        vec('validate_c3_field_86_positioning', 'none_spec', doc='C3 (C24): documented as enforced by the message structure: never reported',
            extra='loop 0 iter=it\n  invariant errors@.len() == 0\nhint start\n  broadcast use group_codes;'),
    ])

# ---- MT950: C1 (C27) currency prefix of 62a and 64 equals that of 60a
TYPES['950'] = dict(
    includes=['inc/cprefix.vu'],
    preamble='''
pub open spec fn ccy60(m: &MT950) -> Seq<char> { match m.field_60 { Field60::F(f) => f.currency@, Field60::M(f) => f.currency@ } }
pub open spec fn ccy62(m: &MT950) -> Seq<char> { match m.field_62 { Field62::F(f) => f.currency@, Field62::M(f) => f.currency@ } }
pub open spec fn c1_spec(m: &MT950) -> Seq<Seq<char>> {
    one_if(cprefix(ccy62(m)) != cprefix(ccy60(m)), "C27"@) + one_if(m.field_64.is_some() && cprefix(m.field_64.unwrap().currency@) != cprefix(ccy60(m)), "C27"@)
}''',
    helpers=[
        ('get_field_60_currency_prefix', 'r@ == cprefix(ccy60(self))'),
        ('get_field_62_currency_prefix', 'r@ == cprefix(ccy62(self))'),
        ('get_field_60_currency', 'r@ == ccy60(self)'),
        ('get_field_62_currency', 'r@ == ccy62(self)'),
    ],
    rules=[
        vec('validate_c1_currency_consistency', 'c1_spec', doc='C1 (C27)', extra='hint start\n  broadcast use group_codes;\nfmtcat *'),
    ])
