#!/usr/bin/env python3
"""generate units/total_fieldNN.vu (C07): every field parser and serialiser returns normally.

No functional postcondition is stated (`ensures true`): what Verus checks here are the obligations it generates itself for
the real body -- string slicing on char boundaries, index bounds, unwrap/expect, arithmetic overflow, termination of every
loop -- for ALL inputs, with no ASCII assumption.  Callee contracts: the shared helpers (swift_utils / field_utils) are
declared total (`ensures true`, bodies checked in the same unit when listed in HELPERS)."""
import os
import re
import sys
import glob

VERIF = os.path.dirname(os.path.dirname(os.path.abspath(__file__)))
sys.path.insert(0, os.path.join(VERIF, 'tools'))
import rsx  # noqa

REPO = os.environ.get('VERIF_REPO', '/repo')


HELPER_INC = {}
for _h in 'parse_exact_length parse_max_length parse_swift_chars parse_alphanumeric parse_uppercase parse_numeric'.split():
    HELPER_INC[_h] = 'inc/charsets.vu'
for _h in 'parse_date_yymmdd parse_time_hhmm parse_swift_digits'.split():
    HELPER_INC[_h] = 'inc/prim_dates.vu'
for _h in 'get_currency_decimals parse_currency validate_non_commodity_currency parse_currency_non_commodity parse_amount validate_amount_decimals parse_amount_with_currency format_swift_amount format_swift_amount_for_currency'.split():
    HELPER_INC[_h] = 'inc/prim_amount.vu'
HELPER_INC['parse_bic'] = 'inc/prim_bic.vu'
HELPER_INC['split_at_first'] = 'inc/prim_split.vu'
HELPER_INC['parse_multiline_text'] = 'inc/prim_lines.vu'
HELPER_INC['parse_party_identifier'] = 'inc/prim_party_api.vu'
HELPER_INC['parse_name_and_address'] = 'inc/prim_party_api.vu'
HELPER_INC['validate_multiline_text'] = 'inc/prim_party_api.vu'


# per-function additions for bodies that need a rewrite or a loop clause the generic rules cannot supply
OVERRIDES = {
    ('field37', 'Field37H', 'parse'): ['body replace "-parse_amount(remaining)?" => "vx::f64_neg(parse_amount(remaining)?)"',
                                       'body replace "remaining.chars().next().unwrap()" => "remaining.vx_nth_char(0).unwrap()"',
                                       'hint before "remaining = vx::str_slice_from(&remaining, 1);" #1',
                                       '  proof { assert(vstd::utf8::is_ascii_chars(remaining@.subrange(0, 1))) by { assert forall|i: int| 0 <= i < 1 implies (#[trigger] remaining@.subrange(0, 1)[i] as u32) < 128 by { assert(remaining@.subrange(0, 1)[i] == remaining@[0]); } } lemma_skip_ascii(remaining, 1); }'],
    ('field19', 'Field19', 'to_swift_string'): ['body replace "format_swift_amount(self.amount)" => "format_swift_amount_19(self.amount)"'],
    ('field61', 'Field61', 'parse'): ['loop 0', '  invariant pos <= input.spec_bytes().len(), vstd::utf8::is_ascii_chars(input@), input.spec_bytes().len() == input@.len()', '  decreases input.spec_bytes().len() - pos'],
}
# private helper fns of a field file (renamed when the name collides with a shared helper)
LOCAL_FNS = {
    'field19': [('format_swift_amount', 'format_swift_amount_19', ['body replace "format!(\\"{:.2}\\", amount)" => "vx::fmt_f64_fixed(amount, 2)"'])],
}
# functions left out of the generated totality units: they need hand-written invariants (covered by a dedicated unit when one exists)
SKIP = {
    ('field50', 'Field50A', 'parse'): 'cut after a digit and a slash read through Chars::next: needs a hand-written step',
    ('field61', 'Field61', 'parse'): 'long scanner with several cursors: needs hand-written invariants',
    ('field59', 'Field59F', 'parse'): 'needs facts about Chars::next (dedicated unit fld_party)',
    ('field90', 'Field90C', 'parse'): 'char_indices scan needs a hand-written invariant',
    ('field90', 'Field90D', 'parse'): 'char_indices scan needs a hand-written invariant',
}


def helper_fns(path):
    src = rsx.Source.get(path)
    out = []
    m = src.masked
    # top-level pub fns outside `mod tests`
    cut = m.find('#[cfg(test)]')
    text = m if cut < 0 else m[:cut]
    for mm in re.finditer(r'(?m)^pub fn ([a-z_][a-z0-9_]*)\s*[<(]', text):
        out.append(mm.group(1))
    return out


def used_helpers(body, names):
    return [n for n in names if re.search(r'(?<![A-Za-z0-9_.])' + n + r'\s*\(', body)]


def gen(path, su, fu):
    rel = os.path.relpath(path, REPO)
    base = os.path.basename(path)[:-3]
    src = rsx.Source.get(path)
    # test modules (there may be several per file) are skipped
    skip = []
    for tm in re.finditer(r'#\[cfg\(test\)\]\s*mod\s+[a-z_0-9]+\s*\{', src.masked):
        ob_ = tm.end() - 1
        skip.append((tm.start(), rsx.match_close(src.masked, ob_)))
    names = []
    for m in re.finditer(r'impl\s+SwiftField\s+for\s+([A-Za-z0-9_]+)\s*\{', src.masked):
        if any(a <= m.start() <= b for a, b in skip):
            continue
        names.append(m.group(1))
    if not names:
        return None
    o = []
    w = o.append
    w('//@include prelude.rs')
    w('//@include lemmas.rs')
    w('//@props C07')
    w('//@include inc/common.vu')
    w('//@include inc/errors.vu')
    w('// GENERATED by tools/gen_total.py: totality (no panic, termination) of every field parser / serialiser of %s' % rel)
    structs = [n for n in names if re.search(r'(?m)^pub struct %s\b' % n, src.masked)]
    enums = [n for n in names if re.search(r'(?m)^pub enum %s\b' % n, src.masked)]
    for n in names:
        w('//@types %s %s' % (rel, n))
    # helpers called by the bodies: declared total, re-checked here from the real source
    bodies = ''
    fns = []
    for n in names:
        impl = 'impl SwiftField for %s' % n
        _, ob, cb = rsx.find_block(src.src, src.masked, impl)
        inner = src.masked[ob:cb]
        for f in ('parse', 'parse_with_variant', 'to_swift_string', 'get_variant_tag'):
            if re.search(r'fn\s+%s\s*[(<]' % f, inner):
                sig, body = src.fn(f, impl)
                bodies += body
                fns.append((n, impl, f))
    done = set()
    todo = used_helpers(bodies, su + fu)
    hsrc = {h: 'src/fields/swift_utils.rs' for h in su}
    hsrc.update({h: 'src/fields/field_utils.rs' for h in fu})
    while todo:
        h = todo.pop()
        if h in done:
            continue
        done.add(h)
        hs = rsx.Source.get(os.path.join(REPO, hsrc[h]))
        sig, body = hs.fn(h)
        if h in HELPER_INC:
            continue
        for h2 in used_helpers(body, su + fu):
            if h2 not in done:
                todo.append(h2)
    incs = []
    for h in sorted(done):
        if h in HELPER_INC and HELPER_INC[h] not in incs:
            incs.append(HELPER_INC[h])
    for i_ in incs:
        w('//@include %s' % i_)
    for h in sorted(done):
        if h in HELPER_INC:
            continue
        w('//@fn %s %s' % (hsrc[h], h))
        w('ensures')
        w('  [C07 total.%s] true' % h)
        w('//@end')
    for (lname, las, lextra) in LOCAL_FNS.get(base, []):
        w('//@fn %s %s as=%s' % (rel, lname, las))
        w('ensures')
        w('  [C07 total.%s.%s] true' % (base, las))
        for x in lextra:
            w(x)
        w('//@end')
    for n, impl, f in fns:
        if (base, n, f) in SKIP:
            w('// NOT COVERED here: %s::%s -- %s' % (n, f, SKIP[(base, n, f)]))
            if f == 'parse':
                w('//@stub %s::parse is not under contract in this unit (%s); callers in this unit only need it to return' % (n, SKIP[(base, n, f)]))
                w('impl %s { #[verifier::external_body] pub fn parse(input: &str) -> (r: crate::cr::Result<%s>) { unimplemented!() } }' % (n, n))
                w('//@endstub')
            continue
        w('//@fn %s %s in "%s" impl=%s' % (rel, f, impl, n))
        w('ensures')
        w('  [C07 total.%s.%s] true' % (n, f))
        w('fmtcat *')
        for extra in OVERRIDES.get((base, n, f), []):
            w(extra)
        w('//@end')
    w('')
    w('} // verus!')
    w('fn main() {}')
    return 'total_%s' % base, '\n'.join(o) + '\n'


def main():
    su = helper_fns(os.path.join(REPO, 'src/fields/swift_utils.rs'))
    fu = helper_fns(os.path.join(REPO, 'src/fields/field_utils.rs'))
    only = sys.argv[1:]
    for p in sorted(glob.glob(os.path.join(REPO, 'src/fields/field[0-9]*.rs'))):
        if only and os.path.basename(p)[:-3] not in only:
            continue
        r = gen(p, su, fu)
        if r:
            out = os.path.join(VERIF, 'units', r[0] + '.vu')
            tmp_ = out + '.tmp%d' % os.getpid()
            open(tmp_, 'w').write(r[1])
            os.replace(tmp_, out)
            print('wrote', r[0])


if __name__ == '__main__':
    main()
