#!/usr/bin/env python3
"""generate units/msgparse_mtNNN.vu: the message-level parsers (parse_from_block4) of every src/messages/mtNNN.rs
checked against the MessageParser contracts, with three families of obligations:
  * C09  the parser is created with the type's own identifier (naming rule MTnnn <-> "nnn")
  * C01  at every Ok exit nothing but the terminator is left unparsed (injected assertion before each `Ok(`)
  * C01/C09 type-specific occurrence bounds from tools/msgparse_table.py (documentation: "at least one ...", "max N")
plus panic-freedom and termination of every loop (C07)."""
import os, re, sys, glob
VERIF = os.path.dirname(os.path.dirname(os.path.abspath(__file__)))
sys.path.insert(0, os.path.join(VERIF, 'tools'))
import rsx
from msgparse_table import BOUNDS, INVARIANTS, HELPERS, NO_LINEAR, HELPER_COUNT, SPECS
REPO = os.environ.get('VERIF_REPO', '/repo')


def field_types(repo):
    res = set()
    for f in glob.glob(os.path.join(repo, 'src/fields/*.rs')):
        s = rsx.Source.get(f)
        for m in re.finditer(r'impl\s+SwiftField\s+for\s+([A-Za-z0-9_]+)', s.masked):
            res.add(m.group(1))
    return res


def block_end(masked, pos):
    """end (index of the closing brace) of the innermost block that contains pos"""
    depth = 0
    for i in range(pos, len(masked)):
        ch = masked[i]
        if ch == '{':
            depth += 1
        elif ch == '}':
            if depth == 0:
                return i
            depth -= 1
    return len(masked)


def stmt_end(masked, pos):
    """index of the `;` that ends the statement starting at pos (depth 0)"""
    depth = 0
    for i in range(pos, len(masked)):
        ch = masked[i]
        if ch in '([{':
            depth += 1
        elif ch in ')]}':
            depth -= 1
            if depth < 0:
                return i
        elif ch == ';' and depth == 0:
            return i
    return len(masked)


def parsed_locals(body_nc):
    """locals that hold field occurrences taken from the parser: [(name, let position, scope end, dead-from position)].
    A local counts when it is bound or assigned from an expression that calls the parser (parser.parse_*, a helper taking
    &mut parser), when values are pushed onto it, or when it is built from such locals (which are then dead: moved)."""
    m = rsx.mask(body_nc)
    PARSE = re.compile(r'parser\s*\.\s*parse_|Self::parse_[a-z0-9_]*\s*\(\s*&mut\s+parser')
    names = set()
    # assignments / lets whose right-hand side calls the parser
    for mm in re.finditer(r'(?<![A-Za-z0-9_.])(?:let\s+(?:mut\s+)?)?([a-z_][a-z0-9_]*)\s*(?::[^=;]*)?=(?!=)', m):
        e = stmt_end(m, mm.end())
        if PARSE.search(m[mm.end():e]):
            names.add(mm.group(1))
    tuple_lets = []
    for mm in re.finditer(r'(?<![A-Za-z0-9_])let\s*\(([a-z0-9_,\s]*)\)\s*=(?!=)', m):
        e = stmt_end(m, mm.end())
        if PARSE.search(m[mm.end():e]):
            for n in [x.strip() for x in mm.group(1).split(',') if x.strip()]:
                names.add(n)
                tuple_lets.append((n, mm.start()))
    for mm in re.finditer(r'(?<![A-Za-z0-9_.])([a-z_][a-z0-9_]*)\s*\.\s*push\s*\(', m):
        names.add(mm.group(1))
    dead = {}
    changed = True
    while changed:
        changed = False
        for mm in re.finditer(r'(?<![A-Za-z0-9_])let\s+(?:mut\s+)?([a-z_][a-z0-9_]*)\s*(?::[^=;]*)?=(?!=)', m):
            e = stmt_end(m, mm.end())
            rhs = m[mm.end():e]
            # a bare mention (not a method call on it, not a borrow) moves the value into the new binding
            moved = []
            for n in names:
                if n == mm.group(1):
                    continue
                hit = None
                for h in re.finditer(r'(?<![A-Za-z0-9_.&])%s(?![A-Za-z0-9_(])(?!\s*\.)' % re.escape(n), rhs):
                    hit = h      # the last bare mention is where the value leaves
                if hit:
                    moved.append((n, mm.end() + hit.start()))
            if moved and mm.group(1) not in names:
                names.add(mm.group(1)); changed = True
            for n, at in moved:
                if n not in dead or dead[n] > at:
                    dead[n] = at
    res = []
    for mm in re.finditer(r'(?<![A-Za-z0-9_])let\s+(?:mut\s+)?([a-z_][a-z0-9_]*)\s*(?::[^=;]*)?(?==|;)', m):
        if mm.group(1) in names:
            # live from the end of the binding statement (a loop inside the initialiser does not see the name yet)
            res.append((mm.group(1), stmt_end(m, mm.end()), block_end(m, mm.start()), dead.get(mm.group(1), len(m))))
    for n, pos in tuple_lets:
        res.append((n, stmt_end(m, pos + 4), block_end(m, pos), dead.get(n, len(m))))
    res.sort(key=lambda x: x[1])
    return res


def gen(t):
    T = 'MT' + t
    f = 'src/messages/mt%s.rs' % t
    src = rsx.Source.get(os.path.join(REPO, f))
    # locate the real body: inherent impl first, else the trait impl
    scope = 'impl %s' % T
    try:
        sig, body = src.fn('parse_from_block4', scope)
    except rsx.ExtractError:
        scope = 'impl crate::traits::SwiftMessageBody for %s' % T
        sig, body = src.fn('parse_from_block4', scope)
    if re.search(r'Self::parse_from_block4|%s::parse_from_block4' % T, body) and scope == 'impl %s' % T:
        pass
    body_nc = rsx.strip_comments(body)
    nloops = len(rsx.loops_in(body_nc))
    o = []
    w = o.append
    w('//@include prelude.rs')
    w('//@include lemmas.rs')
    w('//@props C01 C09 C07')
    w('//@include inc/common.vu')
    w('//@include inc/errors.vu')
    w('// GENERATED by tools/gen_msgparse.py')
    w('//@include inc/mparser_api.vu')
    w('//@types %s %s' % (f, T))
    w('//@fieldimpls' + ('' if t in NO_LINEAR else ' nf'))
    for sp in SPECS.get(t, []):
        w(sp)   # spec vocabulary of the bounds (typed parameters: the element type of a `Vec::new()` local is inferred from them)
    if re.search(r'(?<![.A-Za-z0-9_])parse_repeated_field\s*(::\s*<[^()]*>)?\s*\(', body_nc):
        # the free helper of src/parser/utils.rs is called: it comes with its own contract, proved in this unit
        w('//@include inc/mparser_utils.vu')
    w('')
    for h in HELPERS.get(t, []):
        w('//@fn %s %s in "impl %s" impl=%s sigrep="crate::errors::ParseError=>ParseError" props=C01,C07' % (f, h, T, T))
        w('requires')
        w('  old(parser).wf(), !old(parser).failed@')
        w('ensures')
        w('  [C01 mt%s.%s.frame] final(parser).wf() && final(parser).same(old(parser)) && final(parser).position >= old(parser).position && (final(parser).position == old(parser).position ==> complete(final(parser)) == complete(old(parser)))' % (t, h))
        w('  [C09 mt%s.%s.errors_propagated] final(parser).failed@ == r.is_err()' % (t, h))
        if t not in NO_LINEAR and h in HELPER_COUNT.get(t, {}):
            w('  [C01 mt%s.%s.linear] (match r { Ok(v) => final(parser).consumed@ == old(parser).consumed@ + %s, Err(_) => true })' % (t, h, HELPER_COUNT[t][h]))
        w('body replace "crate::parser::MessageParser" => "MessageParser"')
        w('//@end')
    w('//@fn %s parse_from_block4 in "%s" impl=%s props=C01,C09,C07' % (f, scope, T))
    w('ensures')
    w('  [C07 mt%s.parse.total] true' % t)
    for cid, expr in BOUNDS.get(t, []):
        w('  [C01,C09 mt%s.parse.%s] (match r { Ok(m) => %s, Err(_) => true })' % (t, cid, expr))
    loops = rsx.loops_in(body_nc)
    plocals = parsed_locals(body_nc)
    mb = rsx.mask(body_nc)
    spans = [(ob, rsx.match_close(mb, ob)) for (_, _, ob) in loops]
    # names shadowed inside a loop body: the outer value is snapshotted (ghost) before the loop, for the running totals
    shadow_before = {}      # loop ordinal -> [ghost lets]
    push_hints = []
    if t not in NO_LINEAR:
        seen_anchor = {}
        for pm in re.finditer(r'(?<![A-Za-z0-9_.])([a-z_][a-z0-9_]*)\s*\.\s*push\s*\(\s*([A-Z][A-Za-z0-9]*)\s*\{', mb):
            at = pm.start()
            live = [(n, lp) for (n, lp, le, dd) in plocals if lp < at < le and at < dd]
            terms = []
            for i_, (n, lp) in enumerate(live):
                if any(n2 == n for (n2, _) in live[i_ + 1:]):
                    # shadowed by a later binding: refer to the snapshot taken before the innermost enclosing loop that follows the outer binding
                    encl = [k2 for k2 in range(nloops) if spans[k2][0] < at < spans[k2][1] and lp < loops[k2][0]]
                    if encl:
                        k2 = max(encl, key=lambda q: spans[q][0])
                        g = 'g_outer_%s' % n
                        shadow_before.setdefault(k2, [])
                        if g not in [x[0] for x in shadow_before[k2]]:
                            shadow_before[k2].append((g, n))
                        terms.append(g)
                        continue
                terms.append('%s.nf()' % n)
            anchor = body_nc[pm.start():pm.end()].strip()
            seen_anchor[anchor] = seen_anchor.get(anchor, 0) + 1
            push_hints.append(('hint before "%s"%s' % (anchor, '' if seen_anchor[anchor] == 1 else ' #%d' % seen_anchor[anchor]),
                               '  proof { assert(parser.consumed@ == %s); }' % (' + '.join(terms) if terms else '0')))
    if t not in NO_LINEAR:
        # before a binding that is built from several parsed locals (a sequence struct made of optional members): the
        # running total once more
        for dm in re.finditer(r'(?<![A-Za-z0-9_])let\s+(?:mut\s+)?([a-z_][a-z0-9_]*)\s*(?::[^=;]*)?=(?!=)', mb):
            e = stmt_end(mb, dm.end())
            rhs = mb[dm.end():e]
            if re.search(r'parser\s*\.\s*parse_', rhs) or not re.search(r'[A-Z][A-Za-z0-9]*\s*\{', rhs):
                continue
            at = dm.start()
            live = [n for (n, lp, le, dd) in plocals if lp < at < le and at < dd]
            if len(live) != len(set(live)) or not any(re.search(r'(?<![A-Za-z0-9_.])%s(?![A-Za-z0-9_])' % re.escape(n), rhs) for n in live):
                continue
            push_hints.append(('hint before "%s"' % body_nc[dm.start():dm.end()].strip(), '  proof { assert(parser.consumed@ == %s); }' % (' + '.join('%s.nf()' % n for n in live) if live else '0')))
            after = e + 1
            live2 = [n for (n, lp, le, dd) in plocals if lp < after < le and after < dd]
            if len(live2) == len(set(live2)):
                push_hints.append(('hint after "%s"' % body_nc[dm.start():dm.end()].strip(), '  proof { assert(parser.consumed@ == %s); }' % (' + '.join('%s.nf()' % n for n in live2) if live2 else '0')))
    if t not in NO_LINEAR:
        # checkpoints: the running total restated before every fourth parser call (keeps each arithmetic step small)
        cnt = {}
        nth = 0
        for dm in re.finditer(r'(?<![A-Za-z0-9_])let\s+(?:mut\s+)?([a-z_][a-z0-9_]*)\s*(?::[^=;]*)?=(?!=)', mb):
            anchor = re.sub(r'\s+', ' ', body_nc[dm.start():dm.end()].strip())
            cnt[anchor] = cnt.get(anchor, 0) + 1
            e = stmt_end(mb, dm.end())
            if not re.match(r'\s*parser\s*\.\s*parse_', mb[dm.end():e]):
                continue
            nth += 1
            if nth % 4 != 0:
                continue
            at = dm.start()
            live = [n for (n, lp, le, dd) in plocals if lp < at < le and at < dd]
            if len(live) != len(set(live)) or body_nc[dm.start():dm.end()].strip() != anchor:
                continue
            push_hints.append(('hint before "%s"%s' % (anchor, '' if cnt[anchor] == 1 else ' #%d' % cnt[anchor]), '  proof { assert(parser.consumed@ == %s); }' % (' + '.join('%s.nf()' % n for n in live) if live else '0')))
    for k in range(nloops):
        parents = [j for j in range(nloops) if j != k and spans[j][0] < spans[k][0] and spans[k][1] < spans[j][1]]
        has_inner = any(spans[k][0] < spans[j][0] and spans[j][1] < spans[k][1] for j in range(nloops) if j != k)
        w('loop %d' % k)
        kwpos = loops[k][0]
        live = [n for (n, lp, le, dd) in plocals if lp < kwpos < le and kwpos < dd]
        lin = ', parser.consumed@ == ' + (' + '.join('%s.nf()' % n for n in live) if live else '0') if t not in NO_LINEAR else ''
        lin += ''.join(', %s == %s.nf()' % (g, n) for g, n in shadow_before.get(k, []))
        w('  invariant parser.wf(), !parser.failed@, parser.input == block4, parser.message_type@ == "%s"@' % t + lin + (', parser.position >= p_before_%d' % k if parents else '') + ''.join(', ' + x for x in INVARIANTS.get(t, {}).get(k, [])))
        w('  decreases block4.spec_bytes().len() - parser.position')
        if t not in NO_LINEAR:
            w('  bodystart broadcast use {b_seq_nf_push, b_seq_nf_empty};')
        if parents:
            w('  before let ghost p_before_%d: usize = parser.position;' % k)
        for g, n in shadow_before.get(k, []):
            w('  before let ghost %s: nat = %s.nf();' % (g, n))
    w('body replace "crate::parser::MessageParser::new" => "MessageParser::new"')
    w('body replace "crate::errors::ParseError" => "ParseError"')
    w('hint after "MessageParser::new(block4"')
    w('  proof { assert(parser.message_type@ == "%s"@); }   // C09: the error context names this type' % t)
    for h1, h2 in push_hints:
        w(h1)
        w(h2)
    w('hint start')
    w('  broadcast use {b_seq_nf_push, b_seq_nf_empty};')
    w('okassert')
    w('  assert(complete(&parser));   // C01: nothing after the last field of the type is left unparsed')
    w('  assert(!parser.failed@);   // C09: no error of a fetch was swallowed on the way')
    if t not in NO_LINEAR:
        w('  assert(parser.consumed@ == $OK.nf());   // C01: every field occurrence taken from the text is stored in the result')
    w('//@end')
    w('')
    w('} // verus!')
    w('fn main() {}')
    return '\n'.join(o) + '\n'


def main():
    only = sys.argv[1:]
    types = sorted(re.match(r'mt(\d{3})\.rs$', os.path.basename(p)).group(1) for p in glob.glob(os.path.join(REPO, 'src/messages/mt*.rs')) if re.match(r'mt\d{3}\.rs$', os.path.basename(p)))
    for t in types:
        if only and t not in only:
            continue
        out = os.path.join(VERIF, 'units', 'msgparse_mt%s.vu' % t)
        txt = gen(t)
        try:
            if open(out).read() == txt:
                continue
        except OSError:
            pass
        tmp = out + '.tmp%d' % os.getpid()
        open(tmp, 'w').write(txt)
        os.replace(tmp, out)
    print('generated', len(types) if not only else only)


if __name__ == '__main__':
    main()
