#!/usr/bin/env python3
"""regenerate MANIFEST.json from the per-property table below + the units present under units/"""
import os
import re
import glob
import json

VERIF = os.path.dirname(os.path.dirname(os.path.abspath(__file__)))

CLAIMS = {
    'C01': dict(
        text='Deductive proof (Verus) of the cursor discipline of the sequential message parser, of field extraction (which text is the content of the field at the cursor and how far the cursor moves), of the completeness / repetition-cap obligations and of the field-count linearity obligation (every field occurrence handed out by the parser is stored in the returned value) at every Ok exit of the 30 extracted parse_from_block4 bodies; the message serialisers write the fields in the order the parsers read them (layout contracts shared with C02).',
        note='Trusted: std string search/trim contracts in verus/prelude.rs, field parsers abstracted by the SwiftField trait contract, Verus/Z3.',
        design='DESIGN.md §5 C01', technique='contract-based deductive verification (Verus) of extracted real functions'),
    'C02': dict(
        text='Deductive proof (Verus) of a serialiser contract for every field struct (text == tag + components in the order and with the separators the parser reads) next to the exact-value clause of its parser, of the round-trip lemmas for dates / amounts-as-text / codes / numbering and -- with str::lines / str::split(char) modelled concretely -- for the multi-line fields and the block 1/2 headers (the text written for a parsed value is accepted again and gives the same value), and that the message-level serialisers emit the fields in the order the parser consumes them; number/date formatting through f64/chrono is an assumed external contract.',
        note='Trusted: prelude contracts, float/chrono formatting assumed, Verus/Z3.',
        design='DESIGN.md §5 C02', technique='contract-based deductive verification (Verus): encode/decode inverse lemmas over function contracts'),
    'C04': dict(
        text='Deductive proof (Verus) that each extracted network-rule function returns its documented error codes iff an independently written rule specification (from the SR2025 rule text) is violated, for all messages, including the 23E code / additional-information / duplicate / order / forbidden-pair rules; code tables pinned. Rules that add or compare amounts are proved with float arithmetic left abstract (which amounts, which tolerance, which comparison); the rules left as declared assumptions (MT204 C1/C2, MT200 T80) are listed in the evidence.',
        note='Trusted: prelude contracts (Vec iteration idioms, String equality), f64 comparison uninterpreted, Verus/Z3.',
        design='DESIGN.md §5 C04', technique='contract-based deductive verification (Verus): rule function == rule spec function'),
    'C05': dict(
        text='Deductive proof (Verus) of accept-sound / accept-complete / components-exact postconditions of the field primitives and of the parser of every field struct (89 parsers), for all UTF-8 strings.',
        note='Trusted: std/chrono contracts in verus/prelude.rs (string slicing, lines/split, integer parsing grammar, Unicode classes on ASCII), Verus/Z3. The letter-less heuristics of the option enums are abstracted (C14).',
        design='DESIGN.md §5 C05', technique='contract-based deductive verification (Verus) of extracted real functions'),
    'C06': dict(
        text='Deductive proof (Verus) of the decidable part: decimal-shape guard of amount parsing, ISO-4217 exponent table for all strings, precision admitted <= precision emitted; value preservation through f64 formatting is assumed and listed.',
        note='Trusted: f64 parse grammar/value uninterpreted, float formatting assumed, prelude contracts, Verus/Z3.',
        design='DESIGN.md §5 C06', technique='contract-based deductive verification (Verus)'),
    'C07': dict(
        text='Deductive proof (Verus) of absence of panics (slice bounds and char boundaries, unwrap, overflow, index) and termination for every function under contract (field and message parsers and serialisers, headers, block extraction, field extraction, tokeniser, rule functions, error rendering with context, the address normalisation of the header JSON codecs), with no ASCII assumption on inputs.',
        note='Covers the functions listed in the evidence only; complexity bound not expressible. Trusted: prelude contracts state std panic conditions, Verus/Z3.',
        design='DESIGN.md §5 C07', technique='contract-based deductive verification (Verus): automatically generated safety obligations of extracted functions'),
    'C09': dict(
        text='Deductive proof (Verus) of the error variant and payload (tag, message type, content) produced by every fetch method of the sequential parser, that mandatory tags are fetched as required and no fetch error is swallowed in the extracted message parsers, and that a message without its mandatory repetitive sequence is rejected.',
        note='Trusted: prelude contracts, SwiftField trait contract, Verus/Z3.',
        design='DESIGN.md §5 C09', technique='contract-based deductive verification (Verus)'),
    'C10': dict(
        text='Deductive proof (Verus) of fixed-offset header parsing (every component equals its documented byte range, lengths/directions/shapes rejected as documented), of header round-trip lemmas (an accepted block 1/2 is written back as read), of block extraction against a top-level scan of the block structure (a marker inside a field or tag value is not a block) and of tag re-emission.',
        note='Trusted: prelude contracts (find/starts_with), pad/truncate format specs assumed, Verus/Z3. Not covered (DESIGN.md §7): block-5 tags PDE/PDM/MRF/SYS are not read by Trailer::parse at all, block-3 tags 165/433 are specified as the code reads them (fixed offsets); round trip of those tags is not claimed.',
        design='DESIGN.md §5 C10', technique='contract-based deductive verification (Verus)'),
    'C11': dict(
        text='Deductive proof (Verus), for all strings, that every date/time primitive and date-bearing field parser under contract accepts exactly the calendar-valid digit strings and yields the value given by one shared century/validity specification.',
        note='Trusted: chrono constructors (proleptic Gregorian validity), integer parsing grammar, string slicing contracts in verus/prelude.rs, Verus/Z3. chrono %y%m%d rendering assumed.',
        design='DESIGN.md §5 C11', technique='contract-based deductive verification (Verus) of extracted real functions against one shared date specification'),
    'C12': dict(
        text='Deductive proof (Verus) that each arm of the dispatch tables maps the announced type code to the body type with the same identifier, typed parse mismatches give T03, unsupported codes are reported as unsupported, and the validate plugin calls a text valid exactly when it parses and the full rule list of its announced type is empty.',
        note='Trusted: prelude contracts, plugin JSON assembly around the extracted matches / verdict statements unverified; parse_auto as called by the plugin is an uninterpreted function of the text, Verus/Z3.',
        design='DESIGN.md §5 C12', technique='contract-based deductive verification (Verus) of extracted dispatch functions'),
    'C13': dict(
        text='Deductive proof (Verus) that stop-on-first validation returns a prefix of the full list with equal emptiness (per extracted validate_network_rules), the result is a function of the message, the trait method of every type forwards to it (or is the extracted default body), SwiftMessage::validate reports one entry per error in order with is_valid iff none, and the wrapper / plugin statements take the full list of the announced type.',
        note='Trusted: prelude contracts, Verus/Z3; plugin JSON glue unverified.',
        design='DESIGN.md §5 C13', technique='contract-based deductive verification (Verus): prefix lemma over aggregator contracts'),
    'C14': dict(
        text='Deductive proof (Verus) that parse_with_variant yields the variant named by the letter, heuristic parse returns only self-accepting variants, and the emitted tag carries the variant letter, for the option enums under contract.',
        note='Trusted: prelude contracts, Verus/Z3.',
        design='DESIGN.md §5 C14', technique='contract-based deductive verification (Verus)'),
    'C16': dict(
        text='Deductive proof (Verus) that the field-map tokeniser parse_block4_fields returns exactly the multimap of the documented scan (every marker-delimited field once, under its normalised tag, with its trimmed content and its running position), of tag normalisation against the documented keep-list, and of base-tag extraction, for all UTF-8 inputs. The consumption tracker, the sequential lookup and the sequence splitter (HashMap entry API, iterator/closure chains, sort_by_key) are outside the verifier subset and are NOT covered.',
        note='Trusted: multimap push/new wrappers (entry().or_default().push), std string search/trim contracts, UTF-8 offset axioms in verus/prelude.rs, Verus/Z3. Stamp monotonicity beyond 65535 fields is not claimed.',
        design='DESIGN.md §5 C16', technique='contract-based deductive verification (Verus): loop invariant against an accumulator-passing scan specification'),
    'C17': dict(
        text='Deductive proof (Verus) that the MT103/MT202/MT205 reject/return/cover predicates equal one shared code-word specification and that the plugin method selection follows the documented priority.',
        note='Trusted: str::contains contract, Any::downcast_ref assumed, Verus/Z3.',
        design='DESIGN.md §5 C17', technique='contract-based deductive verification (Verus) against one shared code-word oracle'),
}

NOT_APPLICABLE = {
    'C03': 'whole-message generative completeness over 30 hand-written layouts composed with exact inverses of all 114 field codecs (incl. float/date formatting) is not expressible as function-level contracts a deductive verifier can discharge here; its decidable mechanisms are covered under C02/C05/C14.',
    'C08': 'JSON conversion is serde derive expansions and codecs generic over Serializer/Deserializer driven through serde_json::Value; neither Verus nor Kani can ingest that code and no function-level contract states JSON equality without modelling serde.',
    'C15': 'quantifies over the contents of 195 shipped scenario data files and draws of an external random generator pushed through the serde pipeline: a statement about data and an external RNG, not about a function contract.',
}
PENDING_REASON = 'not claimed at this commit: no verification unit serves this property at this commit (contract-based deductive verification is applicable in part, see DESIGN.md; work in progress)'


def main():
    props = [json.loads(l)['id'] for l in open(os.path.join(VERIF, 'properties.jsonl'))]
    served = set()
    for p in glob.glob(os.path.join(VERIF, 'units', '*.vu')):
        m = re.search(r'^//@props\s+(.*)$', open(p).read(4000), re.M)
        if m:
            served |= set(m.group(1).split())
    checks, na = [], []
    for pid in props:
        if pid in NOT_APPLICABLE:
            na.append(dict(property_id=pid, reason=NOT_APPLICABLE[pid]))
        elif pid in served and pid in CLAIMS:
            c = CLAIMS[pid]
            checks.append(dict(
                property_id=pid, quick_cmd='./check %s quick' % pid, thorough_cmd='./check %s thorough' % pid,
                evidence_file='/verif/evidence/%s.json' % pid, replay_cmd_template='./check %s --replay {path}' % pid,
                engine='verus-contracts',
                level_claimed=dict(category='proof', text=c['text'], design_ref=c['design']),
                level_note=c['note'], technique=c['technique']))
        else:
            na.append(dict(property_id=pid, reason=PENDING_REASON))
    man = dict(
        version=1,
        setup_cmd='./setup.sh',
        hooks=dict(guard='swiftmt_verif', enable='none needed: every function is extracted textually from /repo\'s working tree on every run; no hook commits exist',
                   baseline_off_cmd='cd /repo && cargo test --workspace --no-fail-fast --offline', source_commits=[], add_only=True),
        engines=[dict(name='verus-contracts', path='/verif/check', serves_properties=[c['property_id'] for c in checks],
                      kind_free_text='mechanical extraction of real functions from /repo + contracts from /verif/units/*.vu, discharged by Verus/Z3; violations decorated with inputs replayed on the real crate')],
        checks=checks,
        notes='Contract-based deductive verification of the real code. See DESIGN.md. known_findings.json lists open findings and fixed defects.',
        not_applicable=na,
    )
    json.dump(man, open(os.path.join(VERIF, 'MANIFEST.json'), 'w'), indent=1)
    print('checks:', [c['property_id'] for c in checks], 'n/a:', [n['property_id'] for n in na])


if __name__ == '__main__':
    main()
