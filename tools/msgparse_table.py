"""occurrence bounds documented for the message types (doc comments / error messages "At least one ... is required",
"Maximum N repetitions"): BOUNDS[type] = [(clause id, Verus spec expression over the parsed message `m`)];
INVARIANTS[type] = {loop ordinal: [extra loop invariants needed to carry the bound]}"""
BOUNDS = {
    # SR2025 layouts: the repetitive sequence of these types is mandatory (C09: a message without it is rejected)
    '101': [('at_least_one_transaction', 'm.transactions@.len() >= 1')],
    '104': [('at_least_one_transaction', 'm.transactions@.len() >= 1')],
    '107': [('at_least_one_transaction', 'm.transactions@.len() >= 1')],
    '110': [('at_least_one_cheque', 'm.cheques@.len() >= 1')],
    '204': [('at_least_one_transaction', 'm.transactions@.len() >= 1')],
    '210': [('at_least_one_transaction', 'm.transactions@.len() >= 1')],
    '935': [('at_least_one_rate_change', 'm.rate_changes@.len() >= 1'),
            # field 37H is mandatory (and repetitive) inside every rate change sequence
            ('a_37h_in_every_rate_change', 'every_rc_has_37h(m.rate_changes@)')],
    '920': [('sequences_1_to_100', '1 <= m.sequence@.len() <= 100')],
    '940': [('at_least_one_statement_line', 'm.statement_lines@.len() >= 1')],
}
SPECS = {
    '935': ['pub open spec fn every_rc_has_37h(s: Seq<MT935RateChange>) -> bool { forall|i: int| 0 <= i < s.len() ==> (#[trigger] s[i]).field_37h@.len() >= 1 }'],
}
INVARIANTS = {
    '920': {0: ['sequence@.len() <= 100']},
    '935': {0: ['every_rc_has_37h(rate_changes@)']},
}

# helper functions that parse_from_block4 of a type calls (extracted too; contract = frame on the parser)
HELPERS = {
    '107': ['parse_field_50'],
}

# message types whose parse_from_block4 is not (yet) under the field-count linearity obligation, with the reason
NO_LINEAR = {
}

# field occurrences a helper hands back, as a spec expression over its Ok value `v`
HELPER_COUNT = {
    '107': {'parse_field_50': 'v.0.nf() + v.1.nf()'},
}
