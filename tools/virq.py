#!/usr/bin/env python3
"""Dev helper: print condensed VIR for functions whose path matches a regex.
usage: virq.py file.rs 'regex'   (runs verus --log vir-simple in a temp dir)"""
import re, subprocess, sys, tempfile, os, shutil
src, pat = sys.argv[1], sys.argv[2]
d = tempfile.mkdtemp()
subprocess.run(['verus', os.path.abspath(src), '--log', 'vir-simple', '--log',
                'vir-option=no_span+compact+no_type+no_encoding', '--log-dir', d],
               capture_output=True, cwd=d)
p = os.path.join(d, 'crate-simple.vir')
if not os.path.exists(p):
    p = os.path.join(d, '.verus-log', 'crate-simple.vir')
s = open(p).read()
shutil.rmtree(d)
def condense(b):
    b = re.sub(r'\(CallTargetAttrs[^)]*\)', '', b)
    b = re.sub(r'\(UnfinalizedReadKind[^)]*\([^)]*\)[^)]*\)', '', b)
    b = re.sub(r'\(VarIdentDisambiguate [^)]*\)', '', b)
    b = re.sub(r'\(CallTargetKind (Static|Dynamic)\)', '', b)
    b = re.sub(r'\(GenericBound Trait \(TraitId Sizedness[^\n]*\n', '', b)
    b = re.sub(r':mode Exec :user_mut false :unwrapped_info\s+None', '', b)
    b = re.sub(r'\s+', ' ', b)
    return b
for b in s.split('\n\n'):
    ls = b.split('\n')
    if len(ls) > 2 and ls[1].startswith('(Function') and re.search(pat, ls[2]):
        print(condense(b)); print('=' * 40)
