#!/bin/bash
# usage: seedtest.sh <PROP> <patch.diff> [other props...]  -- apply a seeded change to /repo, run the check(s), undo.
# Evidence and replay files written by the seeded runs are discarded (the committed ones must come from the unchanged tree).
P=$1; PATCH=$2; shift; shift
SAVE=$(mktemp -d /tmp/seedtest.XXXXXX)
cp -r /verif/evidence "$SAVE/evidence"; cp -r /verif/replays "$SAVE/replays"
cd /repo && git apply "$PATCH" || { echo "patch does not apply"; rm -rf "$SAVE"; exit 3; }
cd /verif
for prop in $P "$@"; do ./check $prop quick 2>&1 | grep -E "VIOLATION|obligation:|MACHINERY|UNDECIDED|exit=" | head -8; done
git -C /repo checkout -- .
rm -rf /verif/evidence /verif/replays; mv "$SAVE/evidence" /verif/evidence; mv "$SAVE/replays" /verif/replays; rm -rf "$SAVE"
