#!/bin/bash
# usage: seedtest.sh <PROP> <patch.diff> [other props...]  -- apply a seeded change to /repo, run the check(s), undo
P=$1; PATCH=$2; shift; shift
cd /repo && git apply "$PATCH" || { echo "patch does not apply"; exit 3; }
cd /verif
for prop in $P "$@"; do ./check $prop quick 2>&1 | grep -E "VIOLATION|obligation:|MACHINERY|UNDECIDED|exit=" | head -8; done
git -C /repo checkout -- . 
