#!/usr/bin/env python3
"""generate units/mtser_mtNNN.vu (C02): every message serialiser emits its fields in the documented order.

ORACLE: the declaration of the message struct (and of its sequence structs): fields are declared in the order of the
SR2025 layout, each with its tag in the serde rename.  The text a message must produce is the concatenation, in
declaration order, of `field.to_swift_string() + CRLF` for mandatory fields, nothing for absent optional fields, one line
group per element for repeated fields and sequences, with the final CRLF removed.  The generator writes that text as a
spec function and adds only scaffolding for the real `to_mt_string` (one loop invariant per sequence loop, built from the
same declaration order)."""
import os
import re
import sys
import glob

VERIF = os.path.dirname(os.path.dirname(os.path.abspath(__file__)))
sys.path.insert(0, os.path.join(VERIF, 'tools'))
import rsx  # noqa

REPO = os.environ.get('VERIF_REPO', '/repo')


def field_types():
    names, alias = set(), {}
    for ff in glob.glob(os.path.join(REPO, 'src/fields/*.rs')):
        sf = rsx.Source.get(ff)
        for m in re.finditer(r'impl\s+SwiftField\s+for\s+([A-Za-z0-9_]+)', sf.masked):
            names.add(m.group(1))
        for m in re.finditer(r'(?m)^pub type ([A-Za-z0-9_]+)\s*=\s*([A-Za-z0-9_]+)\s*;', sf.masked):
            alias[m.group(1)] = m.group(2)
    return names, alias


FNAMES, ALIAS = field_types()
ORDERS = {}


def is_field(t):
    t = ALIAS.get(t, t)
    return t in FNAMES


def struct_fields(src, name):
    text = rsx.strip_attrs(rsx.strip_comments(src.item('struct', name)))
    inner = text[text.index('{') + 1:text.rindex('}')]
    out = []
    for m in re.finditer(r'pub\s+([a-z_][a-z0-9_]*)\s*:\s*([^,\n]+(?:<[^\n]*>)?)\s*,', inner):
        out.append((m.group(1), re.sub(r'\s+', '', m.group(2))))
    return out


def enclosing_block(m, pos):
    """innermost { } pair of masked text m that contains pos -> (open, close)"""
    depth = 0
    i = pos
    while i >= 0:
        ch = m[i]
        if ch == '}':
            depth += 1
        elif ch == '{':
            if depth == 0:
                return i, rsx.match_close(m, i)
            depth -= 1
        i -= 1
    return 0, len(m)


def parse_order(src, T, S, fields):
    """the order in which parse_from_block4 fetches the fields of struct S: position of the visible `let` binding of the
    variable each field is built from in the struct literal `S { .. }`.  None when it cannot be read off."""
    try:
        sig, body = src.fn('parse_from_block4', 'impl %s' % T)
    except Exception:
        try:
            sig, body = src.fn('parse_from_block4', 'impl crate::traits::SwiftMessageBody for %s' % T)
        except Exception:
            return None
    b = rsx.strip_comments(body)
    m = rsx.mask(b)
    lit = None
    names = S + ('|Self' if S == T else '')
    for mm in re.finditer(r'(?<![A-Za-z0-9_])(?:' + names + r')\s*\{', m):
        lit = mm
    if not lit:
        return None
    ob = lit.end() - 1
    cb = rsx.match_close(m, ob)
    inner = b[ob + 1:cb]
    pairs = {}
    for item in rsx.split_args(inner) if hasattr(rsx, 'split_args') else inner.split(','):
        it = item.strip()
        if not it:
            continue
        mm = re.match(r'^([a-z_][a-z0-9_]*)\s*:\s*(.*)$', it, re.S)
        if mm:
            cands = [x for x in re.findall(r'(?<![A-Za-z0-9_.])([a-z_][a-z0-9_]*)(?![A-Za-z0-9_(!])', rsx.mask(mm.group(2))) if re.search(r'(?<![A-Za-z0-9_])let\s+(?:mut\s+)?' + x + r'(?![A-Za-z0-9_])', m)]
            if not cands:
                return None
            pairs[mm.group(1)] = cands[0]
        elif re.match(r'^[a-z_][a-z0-9_]*$', it):
            pairs[it] = it
        else:
            return None
    pos = {}
    for name, _ in fields:
        if name not in pairs:
            return None
        v = pairs[name]
        best = None
        for bm in re.finditer(r'(?<![A-Za-z0-9_])let\s+(?:mut\s+)?(?:\(\s*)?(?:[a-z_][a-z0-9_]*\s*,\s*)*' + re.escape(v) + r'(?![A-Za-z0-9_])', m):
            if bm.start() > lit.start():
                continue
            o, c = enclosing_block(m, bm.start())
            if o <= lit.start() <= c:
                best = bm.start()
        if best is None:
            return None
        pos[name] = best
    return [n for n, _ in sorted(fields, key=lambda f: pos[f[0]])]


def classify(ty, subs):
    m = re.match(r'^Option<Vec<([A-Za-z0-9_]+)>>$', ty)
    if m:
        return ('optvec', m.group(1)) if is_field(m.group(1)) else None
    m = re.match(r'^Option<([A-Za-z0-9_]+)>$', ty)
    if m:
        if is_field(m.group(1)):
            return ('opt', m.group(1))
        if m.group(1) in subs:
            return ('optsub', m.group(1))
        return None
    m = re.match(r'^Vec<([A-Za-z0-9_]+)>$', ty)
    if m:
        if is_field(m.group(1)):
            return ('vec', m.group(1))
        if m.group(1) in subs:
            return ('vecsub', m.group(1))
        return None
    if is_field(ty):
        return ('fld', ty)
    if ty in subs:
        return ('sub', ty)
    return None


def app_expr(kind, acc, e):
    """the text after appending the field/sequence `e` to `acc` (accumulator-passing form: mirrors append order, so no
    associativity reasoning is needed; it denotes the plain concatenation)"""
    k, t = kind
    if k == 'fld':
        return '(%s + fld(&%s))' % (acc, e)
    if k == 'opt':
        return '(%s + opt_fld(%s))' % (acc, e)
    if k == 'optvec':
        return '(%s + optvec_fld(%s))' % (acc, e)
    if k == 'vec':
        return 'vec_app(%s, %s@, %s@.len() as int)' % (acc, e, e)
    if k == 'vecsub':
        return '%s_fold(%s, %s@, %s@.len() as int)' % (t, acc, e, e)
    if k == 'optsub':
        return '(match %s { Some(s) => %s_app(%s, &s), None => %s })' % (e, t, acc, acc)
    if k == 'sub':
        return '%s_app(%s, &%s)' % (t, acc, e)


def chain(kinds_exprs, acc):
    for k, e in kinds_exprs:
        acc = app_expr(k, acc, e)
    return acc


def gen(t):
    T = 'MT' + t
    f = 'src/messages/mt%s.rs' % t
    src = rsx.Source.get(os.path.join(REPO, f))
    subs = [m.group(1) for m in re.finditer(r'(?m)^pub struct ([A-Za-z0-9_]+)\s*\{', src.masked) if m.group(1) != T]
    o = []
    w = o.append
    w('//@include prelude.rs')
    w('//@include lemmas.rs')
    w('//@props C02 C01')
    w('//@include inc/common.vu')
    w('//@include inc/errors.vu')
    w('// GENERATED by tools/gen_mtser.py; the oracle is the declaration order of the message struct')
    w('//@include inc/mtser_api.vu')
    w('//@types %s %s' % (f, T))
    w('//@fieldimpls ser')
    w('')
    # sequence structs first (they may be nested: emit in dependency order = reverse declaration is not guaranteed, spec fns may be declared in any order)
    unsupported = []
    for S in subs + [T]:
        fields = struct_fields(src, S)
        po = parse_order(src, T, S, fields)
        if po and po != [n for n, _ in fields]:
            w('// NOTE %s: parse_from_block4 fetches the fields in an order other than the declaration order; the agreement oracle (parser order) is used: %s' % (S, ' '.join(po)))
            fields = sorted(fields, key=lambda f: po.index(f[0]))
        ORDERS[S] = fields
        items = []
        for name, ty in fields:
            k = classify(ty, subs)
            if k is None and ty.startswith('HashMap<String') and 'serde_json::Value' in rsx.strip_comments(src.item('struct', S)):
                # `#[serde(flatten)] original_fields: HashMap<String, serde_json::Value>`: JSON extras, not an MT field
                w('// %s.%s (%s): JSON extras kept by serde(flatten), not part of the MT layout' % (S, name, 'HashMap<String, serde_json::Value>'))
                continue
            if k is None:
                unsupported.append('%s.%s: %s' % (S, name, ty))
                continue
            items.append((k, 'm.%s' % name))
        w('pub open spec fn %s_app(acc: Seq<char>, m: &%s) -> Seq<char> { %s }' % (S, S, chain(items, 'acc')))
        if S != T:
            w('pub open spec fn %s_fold(acc: Seq<char>, v: Seq<%s>, n: int) -> Seq<char>' % (S, S))
            w('    decreases n')
            w('{ if n <= 0 { acc } else { %s_app(%s_fold(acc, v, n - 1), &v[n - 1]) } }' % (S, S))
        else:
            w('pub open spec fn %s_text(m: &%s) -> Seq<char> { %s_app(Seq::<char>::empty(), m) }' % (S, S, S))
    w('')
    # the real serialiser
    scope = 'impl %s' % T
    try:
        sig, body = src.fn('to_mt_string', scope)
        if 'MT%s::to_mt_string(self)' % t in body:
            raise KeyError
    except Exception:
        scope = 'impl crate::traits::SwiftMessageBody for %s' % T
        sig, body = src.fn('to_mt_string', scope)
    b = rsx.strip_comments(body)
    if '%s::to_mt_string(self)' % T in b and scope.startswith('impl crate'):
        scope = 'impl %s' % T
        sig, body = src.fn('to_mt_string', scope)
        b = rsx.strip_comments(body)
    # presence helpers the serialiser calls (`self.has_x()` whose body is one `self.f.is_some()` / `is_none()` expression): extracted too,
    # with the body itself as the (strongest) postcondition, so that the layout proof sees through the call
    for hn in sorted(set(re.findall(r'self\s*\.\s*([a-z_][a-z0-9_]*)\s*\(\s*\)', rsx.mask(b)))):
        try:
            hsig, hbody = src.fn(hn, 'impl %s' % T)
        except Exception:
            continue
        hm = re.match(r'^\{\s*(self\s*\.\s*[a-z_][a-z0-9_]*\s*\.\s*is_(?:some|none)\s*\(\s*\))\s*\}$', rsx.strip_comments(hbody).strip())
        if not hm or '-> bool' not in hsig:
            continue
        w('//@fn %s %s in "impl %s" impl=%s' % (f, hn, T, T))
        w('ensures')
        w('  [C02 mt%s.ser.helper.%s] r == %s' % (t, hn, re.sub(r'\s+', '', hm.group(1))))
        w('//@end')
    w('//@fn %s to_mt_string in "%s" impl=%s' % (f, scope, T))
    w('ensures')
    w('  [C02,C01 mt%s.ser.order] r@ == finalize_spec(%s_text(self), false)' % (t, T))
    # loops over sequences: invariant from declaration order
    mfields = ORDERS[T]
    loops = list(re.finditer(r'for\s+([a-z_][a-z0-9_]*)\s+in\s+&\s*self\s*\.\s*([a-z_][a-z0-9_]*)\s*\{', rsx.mask(b)))
    all_loops = list(re.finditer(r'(?<![A-Za-z0-9_])for\s', rsx.mask(b)))
    if len(all_loops) != len(loops):
        unsupported.append('nested or non-sequence loop in to_mt_string')
    for li, lm in enumerate(loops):
        var, coll = lm.group(1), lm.group(2)
        pre = []
        kind = None
        for name, ty in mfields:
            if name == coll:
                kind = classify(ty, subs)
                break
            k = classify(ty, subs)
            if k:
                pre.append((k, 'self.%s' % name))
        if not kind or kind[0] not in ('vecsub', 'vec'):
            unsupported.append('loop over %s' % coll)
            continue
        acc = chain(pre, 'Seq::<char>::empty()')
        fold = '%s_fold(%s, self.%s@, it.index@ as int)' % (kind[1], acc, coll) if kind[0] == 'vecsub' else 'vec_app(%s, self.%s@, it.index@ as int)' % (acc, coll)
        w('loop %d iter=it' % li)
        w('  invariant result@ == %s' % fold)
    w('hint start')
    w('  broadcast use group_mtser;')
    w('//@end')
    w('')
    w('} // verus!')
    w('fn main() {}')
    return '\n'.join(o) + '\n', unsupported


def main():
    only = sys.argv[1:]
    types = sorted(re.match(r'mt(\d{3})\.rs$', os.path.basename(p)).group(1) for p in glob.glob(os.path.join(REPO, 'src/messages/mt*.rs')) if re.match(r'mt\d{3}\.rs$', os.path.basename(p)))
    for t in types:
        if only and t not in only:
            continue
        text, unsup = gen(t)
        out = os.path.join(VERIF, 'units', 'mtser_mt%s.vu' % t)
        if unsup:
            print('mt%s: NOT generated (%s)' % (t, '; '.join(unsup)))
            if os.path.exists(out):
                os.remove(out)
            continue
        tmp_ = out + '.tmp%d' % os.getpid()
        open(tmp_, 'w').write(text)
        os.replace(tmp_, out)
        print('wrote', out)


if __name__ == '__main__':
    main()
