#!/usr/bin/env python3
"""rsx -- mechanical extraction of Rust items from /repo sources and the purely syntactic
rewrites that bring them inside the Verus subset.  Nothing here knows about any particular
function: every rule is a textual desugaring that is applied on every run and reported in the
evidence (rule name + number of sites).

Positions are always computed on a *masked* copy of the text (comments and the contents of
string / char literals blanked) so that braces, keywords and operators inside literals are
never mistaken for code.
"""
import re


class ExtractError(Exception):
    """anchor lost / unsupported shape -> exit 2 (machinery), never a VIOLATION"""


# --------------------------------------------------------------------------------------
# masking
# --------------------------------------------------------------------------------------
def mask(src: str) -> str:
    out = list(src)
    i, n = 0, len(src)
    while i < n:
        c = src[i]
        if c == '/' and i + 1 < n and src[i + 1] == '/':
            j = src.find('\n', i)
            j = n if j < 0 else j
            for k in range(i, j):
                out[k] = ' '
            i = j
        elif c == '/' and i + 1 < n and src[i + 1] == '*':
            depth, j = 1, i + 2
            while j < n and depth:
                if src.startswith('/*', j):
                    depth += 1; j += 2
                elif src.startswith('*/', j):
                    depth -= 1; j += 2
                else:
                    j += 1
            for k in range(i, j):
                if out[k] != '\n':
                    out[k] = ' '
            i = j
        elif c == 'r' and re.match(r'r#*"', src[i:i + 8]) and (i == 0 or not (src[i - 1].isalnum() or src[i - 1] == '_')):
            m = re.match(r'r(#*)"', src[i:])
            hashes = m.group(1)
            end = src.find('"' + hashes, i + len(m.group(0)))
            if end < 0:
                raise ExtractError('unterminated raw string')
            for k in range(i + len(m.group(0)), end):
                if out[k] != '\n':
                    out[k] = ' '
            i = end + 1 + len(hashes)
        elif c == '"' or (c == 'b' and i + 1 < n and src[i + 1] == '"' and (i == 0 or not (src[i - 1].isalnum() or src[i - 1] == '_'))):
            if c == 'b':
                i += 1
            j = i + 1
            while j < n and src[j] != '"':
                if src[j] == '\\':
                    j += 1
                j += 1
            for k in range(i + 1, j):
                if out[k] != '\n':
                    out[k] = ' '
            i = j + 1
        elif c == "'":
            # char literal or lifetime
            m = re.match(r"'(\\.[^']*|[^'\\])'", src[i:i + 12])
            if m:
                for k in range(i + 1, i + len(m.group(0)) - 1):
                    out[k] = ' '
                i += len(m.group(0))
            else:
                i += 1  # lifetime
        else:
            i += 1
    return ''.join(out)


def strip_comments(src: str) -> str:
    """remove // and /* */ comments (doc comments included); literals untouched"""
    out = []
    i, n = 0, len(src)
    while i < n:
        c = src[i]
        if c == '/' and i + 1 < n and src[i + 1] == '/':
            j = src.find('\n', i)
            i = n if j < 0 else j
        elif c == '/' and i + 1 < n and src[i + 1] == '*':
            depth, j = 1, i + 2
            while j < n and depth:
                if src.startswith('/*', j):
                    depth += 1; j += 2
                elif src.startswith('*/', j):
                    depth -= 1; j += 2
                else:
                    j += 1
            i = j
        elif c == 'r' and re.match(r'r#*"', src[i:i + 8]) and (i == 0 or not (src[i - 1].isalnum() or src[i - 1] == '_')):
            m = re.match(r'r(#*)"', src[i:])
            end = src.find('"' + m.group(1), i + len(m.group(0)))
            end = n if end < 0 else end + 1 + len(m.group(1))
            out.append(src[i:end]); i = end
        elif c == '"':
            j = i + 1
            while j < n and src[j] != '"':
                if src[j] == '\\':
                    j += 1
                j += 1
            out.append(src[i:j + 1]); i = j + 1
        elif c == "'":
            m = re.match(r"'(\\.[^']*|[^'\\])'", src[i:i + 12])
            if m:
                out.append(m.group(0)); i += len(m.group(0))
            else:
                out.append(c); i += 1
        else:
            out.append(c); i += 1
    txt = ''.join(out)
    txt = re.sub(r'[ \t]+\n', '\n', txt)
    txt = re.sub(r'\n{3,}', '\n\n', txt)
    return txt


OPEN = {'(': ')', '[': ']', '{': '}'}
CLOSE = {v: k for k, v in OPEN.items()}


def match_close(masked: str, i: int) -> int:
    """index of the bracket closing the one at i"""
    o = masked[i]
    c = OPEN[o]
    depth = 0
    for j in range(i, len(masked)):
        ch = masked[j]
        if ch == o:
            depth += 1
        elif ch == c:
            depth -= 1
            if depth == 0:
                return j
    raise ExtractError('unbalanced %s at %d' % (o, i))


def match_open(masked: str, i: int) -> int:
    c = masked[i]
    o = CLOSE[c]
    depth = 0
    for j in range(i, -1, -1):
        ch = masked[j]
        if ch == c:
            depth += 1
        elif ch == o:
            depth -= 1
            if depth == 0:
                return j
    raise ExtractError('unbalanced %s at %d' % (c, i))


def is_ident(ch: str) -> bool:
    return ch.isalnum() or ch == '_'


# --------------------------------------------------------------------------------------
# locating items
# --------------------------------------------------------------------------------------
def _norm_ws(s):
    return re.sub(r'\s+', ' ', s.strip())


def find_block(src, masked, header: str, lo=0, hi=None):
    """find `header {` (header given with flexible whitespace, e.g. 'impl SwiftField for Field20'),
    returns (start, open_brace, close_brace)"""
    hi = len(src) if hi is None else hi
    toks = re.findall(r"[A-Za-z0-9_']+|[^\sA-Za-z0-9_']", header)
    pat = r'\s*'.join(re.escape(t) for t in toks)
    # require that header is followed (maybe after generics / where) by '{'
    for m in re.finditer(r'(?<![A-Za-z0-9_])' + pat + r'(?![A-Za-z0-9_])', masked[lo:hi]):
        s = lo + m.start()
        e = lo + m.end()
        j = e
        # walk to the opening brace at depth 0 (skip where clauses / generics)
        depth = 0
        while j < hi:
            ch = masked[j]
            if ch in '(<[':
                depth += 1
            elif ch in ')>]':
                if ch == '>' and masked[j - 1] == '-':
                    pass
                else:
                    depth -= 1
            elif ch == '{' and depth <= 0:
                return s, j, match_close(masked, j)
            elif ch == ';' and depth <= 0:
                break
            j += 1
    raise ExtractError('block not found: %s' % header)


def find_fn(src, masked, name: str, lo=0, hi=None):
    """returns (sig_start, body_open, body_close) of `fn name` within [lo,hi)"""
    hi = len(src) if hi is None else hi
    hits = []
    for m in re.finditer(r'(?<![A-Za-z0-9_])fn\s+' + re.escape(name) + r'(?![A-Za-z0-9_])', masked[lo:hi]):
        fn_kw = lo + m.start()
        # signature start: go back over qualifiers on the same logical item
        s = fn_kw
        while True:
            k = s
            while k > lo and masked[k - 1] in ' \t\n':
                k -= 1
            mm = re.search(r'(pub\s*\([^)]*\)|pub|const|async|unsafe)$', masked[lo:k])
            if mm and (mm.start() + lo == lo or not is_ident(masked[mm.start() + lo - 1])):
                s = lo + mm.start()
            else:
                break
        # body open: first '{' at depth 0 after the parameter list
        j = lo + m.end()
        depth = 0
        body_open = None
        while j < hi:
            ch = masked[j]
            if ch in '([':
                depth += 1
            elif ch in ')]':
                depth -= 1
            elif ch == '{' and depth == 0:
                body_open = j
                break
            elif ch == ';' and depth == 0:
                break  # declaration without body (trait)
            j += 1
        if body_open is None:
            continue
        hits.append((s, body_open, match_close(masked, body_open)))
    if not hits:
        raise ExtractError('fn not found: %s' % name)
    # nested hits (fn inside test mod with same name) -> take the first at lowest depth
    return hits[0]


def find_item(src, masked, kind: str, name: str):
    """struct / enum / const / static / type item by name. returns (start,end) exclusive end"""
    m = re.search(r'(?<![A-Za-z0-9_])((pub(\s*\([^)]*\))?\s+)?' + kind + r'\s+' + re.escape(name) + r')(?![A-Za-z0-9_])', masked)
    if not m:
        raise ExtractError('%s not found: %s' % (kind, name))
    s = m.start(1)
    j = m.end(1)
    depth = 0
    while j < len(masked):
        ch = masked[j]
        if ch in '(<[':
            depth += 1
        elif ch in ')>]':
            if not (ch == '>' and masked[j - 1] in '-='):
                depth -= 1
        elif ch == '{' and depth <= 0:
            return s, match_close(masked, j) + 1
        elif ch == ';' and depth <= 0:
            return s, j + 1
        j += 1
    raise ExtractError('item end not found: %s %s' % (kind, name))


def strip_attrs(text: str) -> str:
    """drop every #[...] / #![...] attribute"""
    out = []
    m = mask(text)
    i = 0
    while i < len(text):
        if m[i] == '#' and re.match(r'#!?\[', m[i:i + 3]):
            j = m.index('[', i)
            i = match_close(m, j) + 1
            # swallow trailing whitespace up to newline
            while i < len(text) and text[i] in ' \t':
                i += 1
            if i < len(text) and text[i] == '\n':
                i += 1
        else:
            out.append(text[i])
            i += 1
    return ''.join(out)


# --------------------------------------------------------------------------------------
# postfix receiver scanning
# --------------------------------------------------------------------------------------
def recv_start(masked: str, dot: int) -> int:
    """given index of the '.' of a method call `RECV.method(...)`, return start index of RECV"""
    i = dot
    state = 'after_dot'  # what we just consumed (scanning backwards)
    while True:
        k = i
        while k > 0 and masked[k - 1] in ' \t\n':
            k -= 1
        if k == 0:
            return i
        ch = masked[k - 1]
        if state in ('after_dot', 'after_q'):
            if ch in ')]':
                i = match_open(masked, k - 1)
                state = 'group'
            elif ch == '"':
                j = masked.rfind('"', 0, k - 1)
                i = j
                if i > 0 and masked[i - 1] == 'b':
                    i -= 1
                state = 'ident'
            elif ch == '>':
                # turbofish / generic args: find matching '<'
                depth, j = 0, k - 1
                while j >= 0:
                    if masked[j] == '>' and masked[j - 1] != '-':
                        depth += 1
                    elif masked[j] == '<':
                        depth -= 1
                        if depth == 0:
                            break
                    j -= 1
                i = j
                if masked[i - 2:i] == '::':
                    i -= 2
                state = 'after_dot'
            elif ch == '?':
                i = k - 1
                state = 'after_q'
            elif is_ident(ch):
                j = k - 1
                while j > 0 and is_ident(masked[j - 1]):
                    j -= 1
                i = j
                state = 'ident'
            else:
                return i
        elif state == 'ident':
            if ch == '.' and not (k >= 2 and masked[k - 2] == '.'):
                i = k - 1
                state = 'after_dot'
            elif ch == ':' and k >= 2 and masked[k - 2] == ':':
                i = k - 2
                state = 'after_dot'
            else:
                return i
        elif state == 'group':
            if k != i:
                # whitespace between callee and group: `foo (x)` is unusual; treat group as primary
                return i
            if is_ident(ch):
                j = k - 1
                while j > 0 and is_ident(masked[j - 1]):
                    j -= 1
                word = masked[j:k]
                if word in ('if', 'while', 'match', 'return', 'in', 'let', 'else', 'for', 'mut', 'ref', 'move'):
                    return i
                i = j
                state = 'ident'
            elif ch in ')]':
                i = match_open(masked, k - 1)
                state = 'group'
            elif ch == '!':
                # macro call  name!(...)
                j = k - 1
                while j > 0 and is_ident(masked[j - 1]):
                    j -= 1
                i = j
                state = 'ident'
            elif ch == '?':
                i = k - 1
                state = 'after_q'
            elif ch == '>':
                state = 'after_dot'
                continue
            else:
                return i


def split_args(text: str):
    """split a parenthesised argument text at top-level commas"""
    m = mask(text)
    out, depth, last = [], 0, 0
    for i, ch in enumerate(m):
        if ch in '([{':
            depth += 1
        elif ch in ')]}':
            depth -= 1
        elif ch == '<':
            pass
        elif ch == ',' and depth == 0:
            out.append(text[last:i].strip())
            last = i + 1
    tail = text[last:].strip()
    if tail:
        out.append(tail)
    return out


# --------------------------------------------------------------------------------------
# rewrite rules
# --------------------------------------------------------------------------------------
class Rewriter:
    def __init__(self):
        self.fired = {}  # rule -> count

    def note(self, rule, n=1):
        if n:
            self.fired[rule] = self.fired.get(rule, 0) + n

    # ---- R1: closure parameter `_`
    def closure_underscore(self, code):
        m = mask(code)
        out, last, n = [], 0, 0
        for mm in re.finditer(r'\|\s*_\s*\|', m):
            out.append(code[last:mm.start()]); out.append('|_e|'); last = mm.end(); n += 1
        out.append(code[last:])
        self.note('closure-param-underscore', n)
        return ''.join(out)

    # ---- R2: str range slicing -> vx::str_slice*
    def str_slices(self, code, skip_names=()):
        n = 0
        while True:
            m = mask(code)
            hit = None
            for mm in re.finditer(r'\[', m):
                ob = mm.start()
                if ob == 0:
                    continue
                prev = m[ob - 1]
                if not (is_ident(prev) or prev in ')]'):
                    continue  # array literal / attribute
                cb = match_close(m, ob)
                inner = m[ob + 1:cb]
                # top-level `..` inside
                depth, pos = 0, None
                for t in range(len(inner) - 1):
                    ch = inner[t]
                    if ch in '([{':
                        depth += 1
                    elif ch in ')]}':
                        depth -= 1
                    elif ch == '.' and inner[t + 1] == '.' and depth == 0:
                        pos = t
                        break
                if pos is None:
                    continue
                rs = recv_start(m, ob)  # treat '[' like a dot for scanning
                recv = code[rs:ob].strip()
                base = re.split(r'[.\[(]', recv)[-1] if False else recv
                root = re.match(r'[A-Za-z_][A-Za-z0-9_]*', recv)
                if recv in skip_names or (root and root.group(0) in skip_names):
                    # mark as visited by replacing '[' in mask only: emulate by skipping via sentinel
                    continue
                a = code[ob + 1:ob + 1 + pos].strip()
                rest = code[ob + 1 + pos + 2:cb].strip()
                incl = False
                if rest.startswith('='):
                    incl = True
                    rest = rest[1:].strip()
                hit = (rs, ob, cb, recv, a, rest, incl)
                break
            if not hit:
                break
            rs, ob, cb, recv, a, b, incl = hit
            if incl:
                b = '(%s) + 1' % b
            # leading '&' (possibly with whitespace) is absorbed: str_slice returns &str
            s0 = rs
            k = rs
            while k > 0 and code[k - 1] in ' \t':
                k -= 1
            if k > 0 and code[k - 1] == '&' and not (k > 1 and code[k - 2] == '&'):
                s0 = k - 1
            if a == '' and b == '':
                rep = recv
            elif a == '':
                rep = 'vx::str_slice_to(%s, %s)' % (ref_of(recv), b)
            elif b == '':
                rep = 'vx::str_slice_from(%s, %s)' % (ref_of(recv), a)
            else:
                rep = 'vx::str_slice(%s, %s, %s)' % (ref_of(recv), a, b)
            code = code[:s0] + rep + code[cb + 1:]
            n += 1
        self.note('str-range-index->vx::str_slice', n)
        return code

    # ---- R3: match on string literals -> if chain
    def str_match(self, code):
        n = 0
        guard = 0
        while True:
            guard += 1
            if guard > 200:
                raise ExtractError('str_match loop')
            m = mask(code)
            hit = None
            for mm in re.finditer(r'(?<![A-Za-z0-9_])match\s', m):
                # scrutinee up to '{' at depth 0
                j = mm.end()
                depth = 0
                while j < len(m):
                    ch = m[j]
                    if ch in '([':
                        depth += 1
                    elif ch in ')]':
                        depth -= 1
                    elif ch == '{' and depth == 0:
                        break
                    j += 1
                ob = j
                cb = match_close(m, ob)
                scrut = code[mm.end():ob].strip()
                arms = parse_arms(code[ob + 1:cb])
                if arms is None:
                    continue
                kinds = set()
                ok = True
                for pats, grd, body in arms:
                    for p in pats:
                        k = pat_kind(p)
                        if k is None:
                            ok = False
                        kinds.add(k)
                if not ok:
                    continue
                if not ({'str', 'somestr'} & kinds):
                    continue
                hit = (mm.start(), cb, scrut, arms)
                break
            if not hit:
                break
            s, cb, scrut, arms = hit
            tmp = '__m%d' % n
            parts = []
            for pats, grd, body in arms:
                conds = []
                wild = False
                bind = None
                somebind = None
                for p in pats:
                    k = pat_kind(p)
                    if k == 'str':
                        conds.append('%s == %s' % (tmp, p))
                    elif k == 'somestr':
                        lit = re.match(r'Some\s*\(\s*(".*")\s*\)$', p, re.S).group(1)
                        conds.append('vx::opt_str_is(%s, %s)' % (tmp, lit))
                    elif k == 'none':
                        conds.append('%s.is_none()' % tmp)
                    elif k == 'wild':
                        wild = True
                    elif k == 'bind':
                        wild = True
                        bind = p
                    elif k == 'somebind':
                        conds.append('%s.is_some()' % tmp)
                        somebind = re.match(r'^Some\s*\(\s*([a-z_][a-z0-9_]*)\s*\)$', p.strip()).group(1)
                b = body.strip()
                if not b.startswith('{'):
                    b = '{ %s }' % b
                if bind:
                    b = '{ let %s = %s; %s }' % (bind, tmp, b)
                if somebind:
                    b = '{ let %s = %s.unwrap(); %s }' % (somebind, tmp, b)
                cond = ' || '.join(conds) if conds else None
                if grd:
                    cond = ('(%s) && (%s)' % (cond, grd)) if cond else grd
                if wild and not grd:
                    parts.append((None, b))
                else:
                    parts.append((cond, b))
            chain = []
            if parts and all(c is not None for c, _ in parts) and not arms[-1][1]:
                # no wildcard arm: the match is exhaustive, so its last (guard-free) arm covers what is left
                parts[-1] = (None, parts[-1][1])
            for idx, (cond, b) in enumerate(parts):
                if cond is None:
                    chain.append(('else ' if idx else '') + b)
                    break
                chain.append(('else if ' if idx else 'if ') + cond + ' ' + b)
            rep = '{ let %s = %s; %s }' % (tmp, scrut, ' '.join(chain))
            code = code[:s] + rep + code[cb + 1:]
            n += 1
        self.note('match-on-str-literal->if-chain', n)
        return code

    # ---- R4a: OPT.is_some_and(|v| v.iter().any(|c| P))  ->  vx::opt_vec_any(OPT, |c| P)   (same for all)
    def is_some_and_nested(self, code):
        n = 0
        while True:
            m = mask(code)
            mm = re.search(r'\.\s*is_some_and\s*\(\s*\|\s*([a-z_][a-z0-9_]*)\s*\|\s*\1\s*\.\s*iter\s*\(\s*\)\s*\.\s*(any|all)\s*\(', m)
            if not mm:
                break
            dot = mm.start()
            inner_op = mm.end() - 1
            inner_cp = match_close(m, inner_op)
            outer_op = m.index('(', dot)
            outer_cp = match_close(m, outer_op)
            rs = recv_start(m, dot)
            recv = code[rs:dot].strip()
            inner = code[inner_op + 1:inner_cp].strip()
            rep = 'vx::opt_vec_%s(%s, %s)' % (mm.group(2), recv, inner)
            # the inner closure becomes the direct argument of a `.any(`-like call: give it its ensures here
            im = re.match(r'\|([^|]*)\|\s*(.*)$', inner, re.S)
            if im:
                rep = 'vx::opt_vec_%s(%s, |%s| -> (b__: bool) ensures b__ == (%s) { %s })' % (mm.group(2), recv, im.group(1), to_spec(im.group(2)), im.group(2))
            code = code[:rs] + rep + code[outer_cp + 1:]
            n += 1
        self.note('opt.is_some_and(|v| v.iter().any(p)) -> vx::opt_vec_any(opt, p)', n)
        return code

    # ---- R4: closures given to .all( / .any( get their body as ensures
    def pred_closures(self, code):
        n = 0
        pos = 0
        while True:
            m = mask(code)
            mm = re.compile(r'\.\s*(all|any|map|is_some_and)\s*\(\s*\|').search(m, pos)
            if not mm:
                break
            bar1 = mm.end() - 1
            bar2 = m.index('|', bar1 + 1)
            op = m.rfind('(', 0, bar1 + 1)
            cp = match_close(m, op)
            if mm.group(1) == 'map' and not re.match(r'\s*\.\s*unwrap_or\s*\(\s*(false|true)\s*\)', m[cp + 1:]):
                pos = cp
                continue
            params = code[bar1 + 1:bar2]
            body = code[bar2 + 1:cp].strip()
            if body.startswith('->'):
                pos = cp
                continue
            if body.endswith(','):
                body = body[:-1].strip()
            spec_body = to_spec(body)
            rep = '|%s| -> (b__: bool) ensures b__ == (%s) { %s }' % (params, spec_body, body)
            code = code[:bar1] + rep + code[cp:]
            pos = bar1 + len(rep)
            n += 1
        self.note('predicate-closure-gets-body-as-ensures', n)
        return code

    # ---- R5/R6: method call -> wrapper function  RECV.m(args) -> vx::f(RECV', args)
    # ---- R4b: closures given to .and_then( : result specified with equal() (return type inferred)
    def and_then_closures(self, code):
        n = 0
        pos = 0
        while True:
            m = mask(code)
            mm = re.compile(r'\.\s*and_then\s*\(\s*\|').search(m, pos)
            if not mm:
                break
            bar1 = mm.end() - 1
            bar2 = m.index('|', bar1 + 1)
            op = m.rfind('(', 0, bar1 + 1)
            cp = match_close(m, op)
            params = code[bar1 + 1:bar2]
            body = code[bar2 + 1:cp].strip()
            if body.startswith('->') or '{' in body:
                pos = cp
                continue
            rep = '|%s| -> (o__: _) ensures equal(o__, (%s)) { %s }' % (params, to_spec(body), body)
            code = code[:bar1] + rep + code[cp:]
            pos = bar1 + len(rep)
            n += 1
        self.note('and_then-closure-gets-body-as-ensures', n)
        return code

    def method_to_fn(self, code, rules):
        """rules: list of (regex on '.name(' text incl. turbofish, wrapper, recv_mode)
        recv_mode: 'ref' pass &RECV unless RECV is already a reference expression; 'val' pass as is"""
        total = 0
        for rx, wrapper, mode, label in rules:
            n = 0
            pos = 0
            cre = re.compile(rx)
            while True:
                m = mask(code)
                mm = cre.search(code if '%' in rx else m, pos)
                if not mm:
                    break
                dot = mm.start()
                if mode == 'replace_tail':
                    rep = '.' + mm.expand(wrapper)
                    code = code[:mm.start()] + rep + code[mm.end():]
                    pos = mm.start() + len(rep)
                    n += 1
                    continue
                if mode == 'replace_whole':
                    rep = mm.expand(wrapper)
                    # text of identifiers must come from the real code, not the mask (identical for identifiers)
                    code = code[:mm.start()] + rep + code[mm.end():]
                    pos = mm.start() + len(rep)
                    n += 1
                    continue
                if mode in ('rename', 'rename_whole', 'rename_keep_tail'):
                    new = mm.expand(wrapper) if '\\' in wrapper else wrapper
                    if mode == 'rename':
                        rep = '.' + new + '('
                    elif mode == 'rename_whole':
                        rep = '.' + new
                    else:
                        # keep what follows the opening paren that the regex consumed (e.g. the quote of a char literal)
                        op_ = m.index('(', mm.start())
                        rep = '.' + new + code[op_:mm.end()]
                    code = code[:mm.start()] + rep + code[mm.end():]
                    pos = mm.start() + len(rep)
                    n += 1
                    continue
                op = mm.end() - 1
                assert m[op] == '(', (rx, m[mm.start():mm.end()])
                cp = match_close(m, op)
                rs = recv_start(m, dot)
                recv = code[rs:dot].strip()
                args = code[op + 1:cp].strip()
                if mode == 'strip_iter':
                    # RECV ends with .iter()
                    r2 = re.sub(r'\s*\.\s*iter\s*\(\s*\)\s*$', '', recv)
                    if r2 == recv:
                        pos = cp
                        continue
                    recv_e = ref_of(r2)
                elif mode == 'ref':
                    recv_e = ref_of(recv)
                else:
                    recv_e = recv
                rep = '%s(%s%s)' % (wrapper, recv_e, (', ' + args) if args else '')
                code = code[:rs] + rep + code[cp + 1:]
                pos = rs + len(wrapper)
                n += 1
            self.note(label, n)
            total += n
        return code

    # ---- R7b: `let NAME[: TYPE] = SRC.into_iter().map(|P| BODY).collect();` (SRC a local, consumed; also `SRC.iter()`,
    #           `.filter(|q| C)` in front of the map, and `.filter_map(|P| OPT)`)
    #           -> `let mut NAME[: TYPE] = Vec::new(); for P in SRC { NAME.push(BODY); }`   (the definition of map + collect)
    def map_collect_loops(self, code):
        n = 0
        pos = 0
        while True:
            m = mask(code)
            mm = re.compile(r'(?<![A-Za-z0-9_])let\s+(?:mut\s+)?([a-z_][a-z0-9_]*)\s*(:\s*[^=;]+?)?\s*=\s*([a-z_][a-z0-9_]*(?:\s*\.\s*[a-z_][a-z0-9_]*)*?)\s*\.\s*(into_iter|iter)\s*\(\s*\)\s*\.\s*(map|filter|filter_map)\s*\(\s*\|').search(m, pos)
            if not mm:
                break
            borrowing = mm.group(4) == 'iter'
            opname = mm.group(5)
            mm = _Groups(mm, {1: 1, 2: 2, 3: 3, 4: 5})
            keep = None
            if mm.group(4) == 'filter':
                # `.filter(|q| COND)` in front of the map: the element is kept when COND holds of a reference to it
                fb1 = mm.end() - 1
                fb2 = m.index('|', fb1 + 1)
                fop = m.rfind('(', 0, fb1 + 1)
                fcp = match_close(m, fop)
                nxt = re.match(r'\s*\.\s*map\s*\(\s*\|', m[fcp + 1:])
                q = code[fb1 + 1:fb2].strip()
                if not nxt or not re.match(r'^[a-z_][a-z0-9_]*$', q):
                    pos = fcp
                    continue
                keep = (q, code[fb2 + 1:fcp].strip())
                bar1 = fcp + 1 + nxt.end() - 1
            else:
                bar1 = mm.end() - 1
            bar2 = m.index('|', bar1 + 1)
            op = m.rfind('(', 0, bar1 + 1)
            cp = match_close(m, op)
            tail = re.match(r'\s*\.\s*collect\s*(::\s*<[^()]*>)?\s*\(\s*\)\s*;', m[cp + 1:])
            if not tail:
                pos = cp
                continue
            name, ty, src = mm.group(1), (mm.group(2) or ''), mm.group(3)
            if not ty and tail.group(1):
                ty = ': ' + code[cp + 1:][tail.start(1):tail.end(1)].strip()[2:].strip()[1:-1]
            param = code[bar1 + 1:bar2].strip()
            body = code[bar2 + 1:cp].strip()
            if body.endswith(','):
                body = body[:-1].strip()
            if keep is not None and not re.match(r'^[a-z_][a-z0-9_]*$', param):
                pos = cp
                continue
            src = re.sub(r'\s+', '', src)
            if borrowing:
                src = src + '.iter()'
            if opname == 'filter_map':
                # the closure yields an Option: its value is pushed when there is one
                rep = 'let mut %s%s = Vec::new(); for %s in %s { if let Some(v__) = %s { %s.push(v__); } }' % (name, (' ' + ty.strip()) if ty else '', param, src, body, name)
            elif keep is None:
                rep = 'let mut %s%s = Vec::new(); for %s in %s { %s.push(%s); }' % (name, (' ' + ty.strip()) if ty else '', param, src, name, body)
            else:
                rep = ('let mut %s%s = Vec::new(); for %s in %s { let keep__ = { let %s = &%s; %s }; if keep__ { %s.push(%s); } }'
                       % (name, (' ' + ty.strip()) if ty else '', param, src, keep[0], param, keep[1], name, body))
            code = code[:mm.start()] + rep + code[cp + 1 + tail.end():]
            pos = mm.start() + len(rep)
            n += 1
        self.note('let v = src.into_iter().map(|x| e).collect(); -> push loop', n)
        return code

    # ---- R7c: `let NAME: f64 = SRC.iter().map(|P| E).sum();` -> accumulation loop with the (uninterpreted) float addition;
    #           `(A - B).abs() OP literal` -> vx::f64_absdiff_OP(A, B, literal)   (A, B places; float arithmetic stays abstract)
    def float_sums(self, code):
        n = 0
        while True:
            m = mask(code)
            mm = re.search(r'(?<![A-Za-z0-9_])let\s+([a-z_][a-z0-9_]*)\s*:\s*f64\s*=\s*([a-z_][a-z0-9_]*(?:\s*\.\s*[a-z_][a-z0-9_]*)*?)\s*\.\s*iter\s*\(\s*\)\s*\.\s*map\s*\(\s*\|', m)
            if not mm:
                break
            bar1 = mm.end() - 1
            bar2 = m.index('|', bar1 + 1)
            op = m.rfind('(', 0, bar1 + 1)
            cp = match_close(m, op)
            tail = re.match(r'\s*\.\s*sum\s*(::\s*<\s*f64\s*>)?\s*\(\s*\)\s*;', m[cp + 1:])
            if not tail:
                break
            name, src = mm.group(1), re.sub(r'\s+', '', mm.group(2))
            param = code[bar1 + 1:bar2].strip()
            body = code[bar2 + 1:cp].strip()
            rep = 'let mut %s: f64 = 0.0; for %s in %s.iter() { %s = vx::f64_add(%s, %s); }' % (name, param, src, name, name, body)
            code = code[:mm.start()] + rep + code[cp + 1 + tail.end():]
            n += 1
        self.note('let s: f64 = v.iter().map(|x| e).sum(); -> accumulation loop (vx::f64_add)', n)
        k = 0
        ops = {'<': 'lt', '>': 'gt', '>=': 'ge', '<=': 'le'}
        def rep_abs(mo):
            nonlocal k
            k += 1
            return 'vx::f64_absdiff_%s(%s, %s, %s)' % (ops[mo.group(3)], mo.group(1), mo.group(2), mo.group(4))
        code = re.sub(r'\(\s*([A-Za-z_][A-Za-z0-9_.]*)\s*-\s*([A-Za-z_][A-Za-z0-9_.]*)\s*\)\s*\.\s*abs\s*\(\s*\)\s*(<=|>=|<|>)\s*([0-9]+\.[0-9]+)', rep_abs, code)
        self.note('(a - b).abs() OP literal -> vx::f64_absdiff_OP(a, b, literal)', k)
        return code

    # ---- R7: while let
    def while_let(self, code):
        n = 0
        while True:
            m = mask(code)
            mm = re.search(r'(?<![A-Za-z0-9_])while\s+let\s', m)
            if not mm:
                break
            # pattern = up to ' = ' at depth 0
            j = mm.end()
            depth = 0
            eq = None
            while j < len(m):
                ch = m[j]
                if ch in '([{':
                    depth += 1
                elif ch in ')]}':
                    depth -= 1
                elif ch == '=' and depth == 0 and m[j + 1] != '=' and m[j - 1] not in '!<>=':
                    eq = j
                    break
                j += 1
            if eq is None:
                raise ExtractError('while let without =')
            pat = code[mm.end():eq].strip()
            j = eq + 1
            depth = 0
            while j < len(m):
                ch = m[j]
                if ch in '([':
                    depth += 1
                elif ch in ')]':
                    depth -= 1
                elif ch == '{' and depth == 0:
                    break
                j += 1
            ob = j
            cb = match_close(m, ob)
            expr = code[eq + 1:ob].strip()
            body = code[ob + 1:cb]
            rep = 'loop { match %s { %s => {%s} _ => { break; } } }' % (expr, pat, body)
            code = code[:mm.start()] + rep + code[cb + 1:]
            n += 1
        self.note('while-let->loop-match', n)
        return code

    # ---- R9: let chains  `if A && let P = E && B { body }`  ->  nested ifs (only without else: otherwise unsupported)
    def let_chains(self, code):
        n = 0
        guard = 0
        while True:
            guard += 1
            if guard > 500:
                raise ExtractError('let_chains loop')
            m = mask(code)
            hit = None
            for mm in re.finditer(r'(?<![A-Za-z0-9_])if\s', m):
                # condition text up to the body brace at depth 0
                j = mm.end()
                depth = 0
                while j < len(m):
                    ch = m[j]
                    if ch in '([':
                        depth += 1
                    elif ch in ')]':
                        depth -= 1
                    elif ch == '{' and depth == 0:
                        break
                    j += 1
                if j >= len(m):
                    continue
                cond_m = m[mm.end():j]
                # split at top-level &&
                parts, depth, last = [], 0, 0
                k = 0
                while k < len(cond_m) - 1:
                    ch = cond_m[k]
                    if ch in '([{':
                        depth += 1
                    elif ch in ')]}':
                        depth -= 1
                    elif ch == '&' and cond_m[k + 1] == '&' and depth == 0:
                        parts.append((last, k)); last = k + 2; k += 1
                    elif ch == '|' and cond_m[k + 1] == '|' and depth == 0:
                        parts = None
                        break
                    k += 1
                if parts is None:
                    continue
                parts.append((last, len(cond_m)))
                texts = [code[mm.end() + a:mm.end() + b].strip() for a, b in parts]
                has_let = [bool(re.match(r'let\s', t)) for t in texts]
                if len(texts) < 2 or not any(has_let):
                    continue
                ob = j
                cb = match_close(m, ob)
                after = m[cb + 1:cb + 40].lstrip()
                if after.startswith('else'):
                    raise ExtractError('let chain with else branch is not supported by the extractor')
                hit = (mm.start(), ob, cb, texts)
                break
            if not hit:
                break
            s0, ob, cb, texts = hit
            body = code[ob:cb + 1]
            # group consecutive non-let conditions
            groups = []
            for t in texts:
                if re.match(r'let\s', t):
                    groups.append(t)
                elif groups and not re.match(r'let\s', groups[-1]):
                    groups[-1] = groups[-1] + ' && ' + t
                else:
                    groups.append(t)
            rep = body
            for g in reversed(groups):
                rep = 'if %s %s' % (g, rep if rep.startswith('{') else '{\n%s\n}' % rep)
            code = code[:s0] + rep + code[cb + 1:]
            n += 1
        self.note('let-chain->nested-if', n)
        return code

    # ---- R10: format! whose value matters and whose arguments are all strings -> vx::catN (sequence concatenation)
    def format_cat(self, code, anchors):
        n = 0
        pos = 0
        while True:
            m = mask(code)
            mm = re.compile(r'(?<![A-Za-z0-9_])format!\s*\(').search(m, pos)
            if not mm:
                break
            op = mm.end() - 1
            cp = match_close(m, op)
            whole = code[mm.start():cp + 1]
            pos = mm.end()
            if not ('*' in anchors or any(a in whole for a in anchors)):
                continue
            args = split_args(code[op + 1:cp])
            if not args or not re.match(r'^"(\\.|[^"\\])*"$', args[0], re.S):
                continue
            lit = args[0][1:-1]
            pieces, cur, k, ai, ok = [], '', 0, 1, True
            while k < len(lit):
                ch = lit[k]
                if ch == '{' and lit[k:k + 2] == '{{':
                    cur += '{'; k += 2
                elif ch == '}' and lit[k:k + 2] == '}}':
                    cur += '}'; k += 2
                elif ch == '{':
                    e = lit.find('}', k)
                    inner = lit[k + 1:e]
                    if inner == '':
                        if ai >= len(args):
                            ok = False; break
                        arg = args[ai]; ai += 1
                    elif re.match(r'^[A-Za-z_][A-Za-z0-9_]*$', inner):
                        arg = inner
                    elif inner == ':02':
                        if ai >= len(args):
                            ok = False; break
                        arg = args[ai]; ai += 1
                        pieces.append(('lit', cur)); cur = ''
                        pieces.append(('pad2', arg))
                        k = e + 1
                        continue
                    elif inner == ':03':
                        if ai >= len(args):
                            ok = False; break
                        arg = args[ai]; ai += 1
                        pieces.append(('lit', cur)); cur = ''
                        pieces.append(('pad3', arg))
                        k = e + 1
                        continue
                    elif re.match(r'^:0[4-9]$', inner) or re.match(r'^:\.[0-9]+$', inner) or inner == ':?' or re.match(r'^:[0-9A-Za-z][<>^][0-9]+$', inner):
                        # zero padding to another width / fixed decimals: the rendering is left uninterpreted
                        if ai >= len(args):
                            ok = False; break
                        arg = args[ai]; ai += 1
                        pieces.append(('lit', cur)); cur = ''
                        pieces.append(('opaque', (inner, arg)))
                        k = e + 1
                        continue
                    else:
                        ok = False; break
                    pieces.append(('lit', cur)); cur = ''
                    pieces.append(('arg', arg))
                    k = e + 1
                else:
                    cur += ch; k += 1
            if not ok or ai != len(args):
                continue
            pieces.append(('lit', cur))
            parts = []
            for kind, v in pieces:
                if kind == 'lit':
                    if v != '':
                        parts.append('"%s"' % v)
                elif kind == 'pad2':
                    parts.append('&(%s).vx_pad2()' % v)
                elif kind == 'pad3':
                    parts.append('&(%s).vx_pad3()' % v)
                elif kind == 'opaque' and re.match(r'^:[0-9A-Za-z][<>][0-9]+$', v[0]):
                    # `{:C<N}` / `{:C>N}` of a string: padded with the fill character up to N characters
                    fill, dirn, width = v[0][1], v[0][2], v[0][3:]
                    parts.append("&vx::str_pad(&(%s).vx_string(), '%s', %s, %s)" % (v[1], fill, 'true' if dirn == '<' else 'false', width))
                elif kind == 'opaque':
                    parts.append('&vx::fmt_opaque("%s", &(%s))' % v)
                else:
                    parts.append('&(%s).vx_string()' % v)
            if not parts:
                parts = ['""']
            if len(parts) > 10:
                continue
            rep = 'vx::cat%d(%s)' % (len(parts), ', '.join(parts))
            code = code[:mm.start()] + rep + code[cp + 1:]
            pos = mm.start() + 1     # the arguments may themselves hold format! calls
            n += 1
        self.note('format!(string args)->vx::catN', n)
        return code

    # ---- R11: X.map_err(|e| BODY) -> match X { Ok(v) => Ok(v), Err(e) => Err(BODY) }   (definition of Result::map_err)
    #          X.ok_or_else(|| BODY) -> match X { Some(v) => Ok(v), None => Err(BODY) }   (definition of Option::ok_or_else)
    def map_err_match(self, code):
        n = 0
        while True:
            m = mask(code)
            mm = re.search(r'\.\s*(map_err|ok_or_else)\s*\(\s*\|', m)
            if not mm:
                break
            kind = mm.group(1)
            dot = mm.start()
            bar1 = mm.end() - 1
            bar2 = m.index('|', bar1 + 1)
            op = m.rfind('(', 0, bar1 + 1)
            cp = match_close(m, op)
            param = code[bar1 + 1:bar2].strip()
            body = code[bar2 + 1:cp].strip()
            rs = recv_start(m, dot)
            recv = code[rs:dot].strip()
            if kind == 'map_err':
                p = param if param not in ('', '_', '_e') else '_e'
                rep = '(match %s { Ok(v__) => Ok(v__), Err(%s) => Err(%s) })' % (recv, p, body)
            else:
                rep = '(match %s { Some(v__) => Ok(v__), None => Err(%s) })' % (recv, body)
            code = code[:rs] + rep + code[cp + 1:]
            n += 1
        self.note('map_err/ok_or_else closure -> match (std definition)', n)
        return code

    # ---- R11b: OPT.or_else(|| BODY) -> match OPT { Some(v) => Some(v), None => BODY }   (definition of Option::or_else; a
    #           closure without parameters can only be Option's)
    def opt_or_else(self, code):
        n = 0
        while True:
            m = mask(code)
            mm = re.search(r'\.\s*or_else\s*\(\s*\|\s*\|', m)
            if not mm:
                break
            dot = mm.start()
            bar2 = mm.end() - 1
            op = m.rfind('(', 0, bar2)
            cp = match_close(m, op)
            body = code[bar2 + 1:cp].strip()
            rs = recv_start(m, dot)
            recv = code[rs:dot].strip()
            rep = '(match %s { Some(v__) => Some(v__), None => %s })' % (recv, body)
            code = code[:rs] + rep + code[cp + 1:]
            n += 1
        self.note('opt.or_else(|| e) -> match (std definition)', n)
        return code

    # ---- R12: `for (IDX, X) in RECV.iter().enumerate()` whose index only feeds format! arguments (message text)
    #          -> `for X in &RECV`, the index expressions inside the messages replaced by 0usize
    def drop_log_macros(self, code):
        """`debug!(..);` / `info!` / `warn!` / `error!` / `trace!` statements (tracing / log) write diagnostics and have no effect on
        any value: dropped (reported in the evidence)"""
        n = 0
        while True:
            m = mask(code)
            mm = re.search(r'(?<![A-Za-z0-9_])(?:tracing\s*::\s*|log\s*::\s*)?(?:debug|info|warn|error|trace)\s*!\s*\(', m)
            if not mm:
                break
            cp = match_close(m, mm.end() - 1)
            tail = re.match(r'\s*;', m[cp + 1:])
            code = code[:mm.start()] + code[cp + 1 + (tail.end() if tail else 0):]
            n += 1
        self.note('tracing/log macro statements dropped (diagnostics only)', n)
        return code

    def drop_debug_only(self, code):
        """`#[cfg(debug_assertions)] { .. }` / `#[cfg(debug_assertions)] stmt;` are diagnostics that release builds do not
        contain: dropped (reported in the evidence)"""
        n = 0
        while True:
            m = mask(code)
            mm = re.search(r'#\[cfg\(debug_assertions\)\]\s*', m)
            if not mm:
                break
            j = mm.end()
            if j < len(m) and m[j] == '{':
                e = match_close(m, j) + 1
            else:
                depth, e = 0, j
                while e < len(m) and not (m[e] == ';' and depth == 0):
                    if m[e] in '([{':
                        depth += 1
                    elif m[e] in ')]}':
                        depth -= 1
                    e += 1
                e += 1
            code = code[:mm.start()] + code[e:]
            n += 1
        self.note('#[cfg(debug_assertions)] diagnostics dropped', n)
        return code

    def char_indices_loops(self, code):
        # an iterator held in a variable:  `let mut IT = S.char_indices();`  ...  `IT.next()`  ...  `for (i, c) in IT {`
        #   -> the collected (byte offset, char) pairs and a cursor: next() reads at the cursor and advances it, the loop
        #      walks the rest (the semantics of an iterator consumed in pieces)
        k_hi = 0
        while True:
            m_hi = mask(code)
            mm_hi = re.search(r'(?<![A-Za-z0-9_])let\s+mut\s+([a-z_][a-z0-9_]*)\s*=\s*([A-Za-z_][A-Za-z0-9_.]*)\s*\.\s*char_indices\s*\(\s*\)\s*;', m_hi)
            if not mm_hi:
                break
            it_, s_ = mm_hi.group(1), mm_hi.group(2)
            code = code[:mm_hi.start()] + 'let %s_ci__ = %s.vx_char_indices(); let mut %s_k__: usize = 0;' % (it_, s_, it_) + code[mm_hi.end():]
            # IT.next()
            code = re.sub(r'(?<![A-Za-z0-9_.])%s\s*\.\s*next\s*\(\s*\)' % re.escape(it_), 'vx::pairs_next(&%s_ci__, &mut %s_k__)' % (it_, it_), code)
            # for (i, c) in IT {
            m2 = mask(code)
            mf = re.search(r'(?<![A-Za-z0-9_])for\s*\(\s*([a-z_][a-z0-9_]*)\s*,\s*([a-z_][a-z0-9_]*)\s*\)\s*in\s+%s\s*\{' % re.escape(it_), m2)
            if mf:
                ob = mf.end() - 1
                cb = match_close(m2, ob)
                i_, c_ = mf.group(1), mf.group(2)
                inner = code[ob + 1:cb]
                if re.search(r'(?<![A-Za-z0-9_])continue(?![A-Za-z0-9_])', mask(inner)):
                    raise ExtractError('iterator loop with `continue` cannot become a cursor loop')
                rep = ('while %s_k__ < %s_ci__.len() /*@auto invariant %s_k__ <= %s_ci__.len(); decreases %s_ci__.len() - %s_k__*/ '
                       '{ let %s: usize = %s_ci__[%s_k__].0; let %s: char = %s_ci__[%s_k__].1; %s_k__ += 1; %s }' % (it_, it_, it_, it_, it_, it_, i_, it_, it_, c_, it_, it_, it_, inner))
                code = code[:mf.start()] + rep + code[cb + 1:]
            k_hi += 1
        self.note('held char_indices() iterator -> collected pairs with a cursor (next / for over the rest)', k_hi)
        # `for (i, c) in S.char_indices() {` -> counter loop over the collected (byte offset, char) pairs
        k_ci = 0
        while True:
            m_ci = mask(code)
            mm_ci = re.search(r'(?<![A-Za-z0-9_])for\s*\(\s*([a-z_][a-z0-9_]*)\s*,\s*([a-z_][a-z0-9_]*)\s*\)\s*in\s+([A-Za-z_][A-Za-z0-9_.]*)\s*\.\s*char_indices\s*\(\s*\)\s*\{', m_ci)
            if not mm_ci:
                break
            ob = mm_ci.end() - 1
            cb = match_close(m_ci, ob)
            i_, c_, s_ = mm_ci.group(1), mm_ci.group(2), mm_ci.group(3)
            inner = code[ob + 1:cb]
            if re.search(r'(?<![A-Za-z0-9_])continue(?![A-Za-z0-9_])', mask(inner)):
                raise ExtractError('char_indices loop with `continue` cannot become a counter loop')
            rep = ('{ let ci__ = %s.vx_char_indices(); let mut k__: usize = 0; while k__ < ci__.len() /*@auto invariant k__ <= ci__.len(); decreases ci__.len() - k__*/ '
                   '{ let %s: usize = ci__[k__].0; let %s: char = ci__[k__].1; %s\n k__ += 1; } }' % (s_, i_, c_, inner))
            code = code[:mm_ci.start()] + rep + code[cb + 1:]
            k_ci += 1
        self.note('for (i, c) in s.char_indices()->counter loop over vx_char_indices()', k_ci)
        return code

    def enumerate_msg_only(self, code, force_counter=False):
        n = 0
        while True:
            m = mask(code)
            mm = re.search(r'(?<![A-Za-z0-9_])for\s*\(\s*([a-z_][a-z0-9_]*)\s*,\s*([a-z_][a-z0-9_]*)\s*\)\s*in\s+', m)
            if not mm:
                break
            idx, var = mm.group(1), mm.group(2)
            j = mm.end()
            depth = 0
            while j < len(m):
                ch = m[j]
                if ch in '([':
                    depth += 1
                elif ch in ')]':
                    depth -= 1
                elif ch == '{' and depth == 0:
                    break
                j += 1
            ob = j
            cb = match_close(m, ob)
            it_expr = code[mm.end():ob].strip()
            skip = None
            sk = re.search(r'\s*\.\s*skip\s*\(([^()]*)\)\s*$', it_expr)
            if sk:
                skip = sk.group(1).strip()
                it_expr = it_expr[:sk.start()]
            take = None
            tk = re.search(r'\s*\.\s*take\s*\(((?:[^()]|\([^()]*\))*)\)\s*$', it_expr)
            if tk:
                # `.enumerate().take(e)[.skip(s)]`: indices s .. min(e, len)
                take = tk.group(1).strip()
                it_expr = it_expr[:tk.start()]
            r2 = re.sub(r'\s*\.\s*iter\s*\(\s*\)\s*\.\s*enumerate\s*\(\s*\)\s*$', '', it_expr)
            if r2 == it_expr:
                raise ExtractError('enumerate loop of unsupported shape: ' + it_expr[:60])
            body = code[ob:cb + 1]
            bm = mask(body)
            fspans = []
            for fm in re.finditer(r'(?<![A-Za-z0-9_])format!\s*\(', bm):
                fspans.append((fm.end() - 1, match_close(bm, fm.end() - 1)))
            idx_outside = any(not any(a < u.start() < b for a, b in fspans) for u in re.finditer(r'(?<![A-Za-z0-9_.])' + re.escape(idx) + r'(?![A-Za-z0-9_])', bm))
            if skip is not None or take is not None or idx_outside or force_counter:
                # the index is needed: counter loop  { let mut i = S; while i < E.len() { let x = &E[i]; BODY; i += 1; } }
                has_continue = re.search(r'(?<![A-Za-z0-9_])continue(?![A-Za-z0-9_])', bm)
                if has_continue and re.search(r'(?<![A-Za-z0-9_.])(for|while|loop)(?![A-Za-z0-9_])', bm[1:]):
                    raise ExtractError('enumerate loop with `continue` and an inner loop cannot become a counter loop')
                s0 = skip if skip is not None else '0'
                seq = r2.strip()
                if seq.startswith('&'):
                    seq = seq[1:].strip()
                inner = body[1:-1]
                if has_continue:
                    # `continue` of this loop must still advance the counter
                    im = mask(inner)
                    out, last = '', 0
                    for cm_ in re.finditer(r'(?<![A-Za-z0-9_])continue\s*;', im):
                        out += inner[last:cm_.start()] + '{ %s += 1; continue; }' % idx
                        last = cm_.end()
                    inner = out + inner[last:]
                    self.note('continue in a counter loop -> { i += 1; continue; }', 1)
                if take is not None:
                    rep = ('{ let take__: usize = %s; let mut %s: usize = %s; while %s < %s.len() && %s < take__ /*@auto invariant %s >= %s; decreases %s.len() - %s*/ { let %s = &%s[%s]; %s\n %s += 1; } }'
                           % (take, idx, s0, idx, seq, idx, idx, s0, seq, idx, var, seq, idx, inner, idx))
                else:
                    rep = ('{ let mut %s: usize = %s; while %s < %s.len() /*@auto invariant %s >= %s; decreases %s.len() - %s*/ { let %s = &%s[%s]; %s\n %s += 1; } }'
                           % (idx, s0, idx, seq, idx, s0, seq, idx, var, seq, idx, inner, idx))
                code = code[:mm.start()] + rep + code[cb + 1:]
                self.note('for (i, x) in v.iter().enumerate()[.take(e)][.skip(s)] -> counter loop', 1)
                continue
            # every use of idx must be inside a format!(...) call
            spans = []
            for fm in re.finditer(r'(?<![A-Za-z0-9_])format!\s*\(', bm):
                op = fm.end() - 1
                spans.append((op, match_close(bm, op)))
            new_body = body
            uses = [u for u in re.finditer(r'(?<![A-Za-z0-9_.])' + re.escape(idx) + r'(?![A-Za-z0-9_])(\s*\+\s*1)?', bm)]
            for u in reversed(uses):
                if not any(a < u.start() < b for a, b in spans):
                    raise ExtractError('enumerate index %s is used outside message formatting' % idx)
                new_body = new_body[:u.start()] + '0usize' + new_body[u.end():]
            if re.match(r'^[a-z_][a-z0-9_]*$', r2.strip()):
                # a bare local / parameter (possibly a slice): iterate it the way the source does
                code = code[:mm.start()] + 'for %s in %s.iter() ' % (var, r2.strip()) + new_body + code[cb + 1:]
            else:
                code = code[:mm.start()] + 'for %s in &%s ' % (var, r2) + new_body + code[cb + 1:]
            n += 1
        self.note('for (i, x) in v.iter().enumerate() with i used only in messages -> for x in &v', n)
        return code

    # ---- R12b: `for X in V.iter().skip(N) { B }` (V a local or a place) -> counter loop starting at N
    def iter_skip_loops(self, code):
        n = 0
        while True:
            m = mask(code)
            mm = re.search(r'(?<![A-Za-z0-9_])for\s+([a-z_][a-z0-9_]*)\s+in\s+([a-z_][a-z0-9_.]*)\s*\.\s*iter\s*\(\s*\)\s*\.\s*skip\s*\(([^()]*)\)\s*\{', m)
            if not mm:
                break
            var, seq, skip = mm.group(1), mm.group(2), mm.group(3).strip()
            ob = mm.end() - 1
            cb = match_close(m, ob)
            inner = code[ob + 1:cb]
            im = mask(inner)
            if re.search(r'(?<![A-Za-z0-9_])continue(?![A-Za-z0-9_])', im):
                if re.search(r'(?<![A-Za-z0-9_.])(for|while|loop)(?![A-Za-z0-9_])', im):
                    raise ExtractError('skip loop with `continue` and an inner loop cannot become a counter loop')
                out, last = '', 0
                for cm_ in re.finditer(r'(?<![A-Za-z0-9_])continue\s*;', im):
                    out += inner[last:cm_.start()] + '{ k__%d += 1; continue; }' % n
                    last = cm_.end()
                inner = out + inner[last:]
            k = 'k__%d' % n
            rep = ('{ let mut %s: usize = %s; while %s < %s.len() /*@auto invariant %s >= %s; decreases %s.len() - %s*/ { let %s = &%s[%s]; %s\n %s += 1; } }'
                   % (k, skip, k, seq, k, skip, seq, k, var, seq, k, inner, k))
            code = code[:mm.start()] + rep + code[cb + 1:]
            n += 1
        self.note('for x in v.iter().skip(s) -> counter loop', n)
        return code

    # ---- R8: local `const NAME: &[&str] = &[...]` -> `let NAME: Vec<&'static str> = vec![...]`
    def local_const_strs(self, code):
        n = 0
        while True:
            m = mask(code)
            mm = re.search(r'(?<![A-Za-z0-9_])const\s+([A-Z_][A-Z0-9_]*)\s*:\s*&\s*str\s*=', m)
            if not mm:
                break
            code = code[:mm.start()] + "let %s: &'static str =" % mm.group(1) + code[mm.end():]
            n += 1
        self.note('local-const-str->let', n)
        return code

    def local_const_slices(self, code):
        n = 0
        while True:
            m = mask(code)
            mm = re.search(r'(?<![A-Za-z0-9_])const\s+([A-Z_][A-Z0-9_]*)\s*:\s*&\s*\[\s*&\s*str\s*\]\s*=\s*&\s*\[', m)
            if not mm:
                break
            ob = mm.end() - 1
            cb = match_close(m, ob)
            semi = m.index(';', cb)
            rep = "let %s: Vec<&'static str> = vec![%s];" % (mm.group(1), code[ob + 1:cb])
            code = code[:mm.start()] + rep + code[semi + 1:]
            n += 1
        self.note('local-const-str-slice->let-vec', n)
        return code

    def apply_all(self, code, opts):
        code = self.closure_underscore(code)
        code = self.drop_debug_only(code)
        code = self.drop_log_macros(code)
        code = self.char_indices_loops(code)
        code = self.enumerate_msg_only(code, force_counter=bool(opts.get('counter')))
        code = self.iter_skip_loops(code)
        if opts.get('fmtcat'):
            code = self.format_cat(code, opts['fmtcat'])
        if opts.get('maperr'):
            code = self.map_err_match(code)
        code = self.let_chains(code)
        code = self.local_const_strs(code)
        code = self.local_const_slices(code)
        code = self.float_sums(code)
        code = self.map_collect_loops(code)
        code = self.opt_or_else(code)
        if not opts.get('no_while_let'):
            code = self.while_let(code)
        if not opts.get('no_str_match'):
            code = self.str_match(code)
        if not opts.get('no_pred_closures'):
            code = self.is_some_and_nested(code)
            code = self.pred_closures(code)
            code = self.and_then_closures(code)
        k_sf = len(re.findall(r'(?<![A-Za-z0-9_:])String::from\(', code))
        if k_sf:
            code = re.sub(r'(?<![A-Za-z0-9_:])String::from\(', 'vx::string_from(', code)
            self.note('String::from(&str)->vx::string_from', k_sf)
        # `X.split(P).collect()` -> X.vx_split(P)
        k_sp = 0
        while True:
            m_sp = mask(code)
            mm_sp = re.search(r'\.\s*split\s*\(', m_sp)
            found = False
            for mm_sp in re.finditer(r'\.\s*split\s*\(', m_sp):
                op = mm_sp.end() - 1
                cp = match_close(m_sp, op)
                tail = re.match(r'\s*\.\s*collect\s*(::\s*<[^()]*>)?\s*\(\s*\)', m_sp[cp + 1:])
                if tail:
                    code = code[:mm_sp.start()] + '.vx_split(' + code[op + 1:cp] + ')' + code[cp + 1 + tail.end():]
                    k_sp += 1
                    found = True
                    break
            if not found:
                break
        self.note('str.split(p).collect()->vx_split(p)', k_sp)
        # `for x in E.lines() {` -> iterate the collected lines
        k_fl = 0
        while True:
            m_fl = mask(code)
            mm_fl = re.search(r'(?<![A-Za-z0-9_])for\s+([a-z_][a-z0-9_]*)\s+in\s+([A-Za-z_][A-Za-z0-9_.]*)\s*\.\s*lines\s*\(\s*\)\s*\{', m_fl)
            if not mm_fl:
                break
            ob = mm_fl.end() - 1
            cb = match_close(m_fl, ob)
            v, e = mm_fl.group(1), mm_fl.group(2)
            code = code[:mm_fl.start()] + '{ let lines__ = %s.vx_lines(); for %s in lines__.iter() ' % (e, v) + code[ob:cb + 1] + ' }' + code[cb + 1:]
            k_fl += 1
        self.note('for x in s.lines()->for x in s.vx_lines().iter()', k_fl)
        # `for x in E.lines().take(N) {` -> the first N collected lines
        k_ft = 0
        while True:
            m_fl = mask(code)
            mm_fl = re.search(r'(?<![A-Za-z0-9_])for\s+([a-z_][a-z0-9_]*)\s+in\s+([A-Za-z_][A-Za-z0-9_.]*)\s*\.\s*lines\s*\(\s*\)\s*\.\s*take\s*\(\s*([A-Za-z0-9_:.]+)\s*\)\s*\{', m_fl)
            if not mm_fl:
                break
            ob = mm_fl.end() - 1
            cb = match_close(m_fl, ob)
            v, e, n_ = mm_fl.group(1), mm_fl.group(2), mm_fl.group(3)
            code = code[:mm_fl.start()] + '{ let lines__ = vx::vec_take(%s.vx_lines(), %s); for %s in lines__.iter() ' % (e, n_, v) + code[ob:cb + 1] + ' }' + code[cb + 1:]
            k_ft += 1
        self.note('for x in s.lines().take(n)->for x in vx::vec_take(s.vx_lines(), n).iter()', k_ft)
        # `S.chars().take(N).collect::<String>()` -> vx::str_take_chars(&S, N)
        k_tc = 0
        while True:
            m_tc = mask(code)
            mm_tc = re.search(r'(?<![A-Za-z0-9_.])([A-Za-z_][A-Za-z0-9_.]*?)\s*\.\s*chars\s*\(\s*\)\s*\.\s*take\s*\(\s*([0-9]+)\s*\)\s*\.\s*collect\s*::\s*<\s*String\s*>\s*\(\s*\)', m_tc)
            if not mm_tc:
                break
            code = code[:mm_tc.start()] + 'vx::str_take_chars(&%s, %s)' % (mm_tc.group(1), mm_tc.group(2)) + code[mm_tc.end():]
            k_tc += 1
        self.note('s.chars().take(n).collect::<String>()->vx::str_take_chars(&s, n)', k_tc)
        # `S.get(A..B)` on a str (literal bounds) -> vx::str_get(S, A, B)
        k_sg = 0
        while True:
            m_sg = mask(code)
            mm_sg = re.search(r'(?<![A-Za-z0-9_.])([A-Za-z_][A-Za-z0-9_.]*?)\s*\.\s*get\s*\(\s*([0-9]+)\s*\.\.\s*([0-9]+)\s*\)', m_sg)
            if not mm_sg:
                break
            code = code[:mm_sg.start()] + 'vx::str_get(&%s, %s, %s)' % (mm_sg.group(1), mm_sg.group(2), mm_sg.group(3)) + code[mm_sg.end():]
            k_sg += 1
        self.note('s.get(a..b)->vx::str_get(&s, a, b)', k_sg)
        # `TABLE.iter().position(|&c| c == X)` over a table of string literals -> vx::lits_position(&TABLE, X)
        k_ps = 0
        while True:
            m_ps = mask(code)
            mm_ps = re.search(r'([A-Za-z_][A-Za-z0-9_:]*(?:\(\))?)\s*\.\s*iter\s*\(\s*\)\s*\.\s*position\s*\(\s*\|\s*&\s*([a-z_][a-z0-9_]*)\s*\|\s*\2\s*==\s*([a-z_][a-z0-9_.]*)\s*\)', m_ps)
            if not mm_ps:
                break
            code = code[:mm_ps.start()] + 'vx::lits_position(&%s, (%s).vx_str())' % (mm_ps.group(1), mm_ps.group(3)) + code[mm_ps.end():]
            k_ps += 1
        self.note('TABLE.iter().position(|&c| c == x)->vx::lits_position(&TABLE, x)', k_ps)
        # `for &(A, B) in TABLE {` (rows of a const table of pairs) -> iterate the rows and bind the two components
        k_tp = 0
        while True:
            m_tp = mask(code)
            mm_tp = re.search(r'(?<![A-Za-z0-9_])for\s+&\s*\(\s*([a-z_][a-z0-9_]*)\s*,\s*([a-z_][a-z0-9_]*)\s*\)\s+in\s+([A-Za-z_][A-Za-z0-9_:]*(?:\(\))?)\s*\{', m_tp)
            if not mm_tp:
                break
            ob = mm_tp.end() - 1
            cb = match_close(m_tp, ob)
            a_, b_, e_ = mm_tp.group(1), mm_tp.group(2), mm_tp.group(3)
            inner = code[ob + 1:cb]
            rep = '{ let tab__ = %s; for row__ in tab__.iter() { let %s = row__.0; let %s = &row__.1; %s } }' % (e_, a_, b_, inner)
            code = code[:mm_tp.start()] + rep + code[cb + 1:]
            k_tp += 1
        self.note('for &(a, b) in TABLE->for row in TABLE.iter() with the two components bound', k_tp)
        # `for x in &V[A..B] {` -> counter loop over the same index range (the range check of the slice is kept as a call)
        k_sl = 0
        while True:
            m_sl = mask(code)
            mm_sl = re.search(r'(?<![A-Za-z0-9_])for\s+([a-z_][a-z0-9_]*)\s+in\s+&\s*([a-z_][a-z0-9_]*)\s*\[([^\[\]]*?)\.\.([^\[\]]*?)\]\s*\{', m_sl)
            if not mm_sl:
                break
            ob = mm_sl.end() - 1
            cb = match_close(m_sl, ob)
            x, v = mm_sl.group(1), mm_sl.group(2)
            a = code[mm_sl.start(3):mm_sl.end(3)].strip() or '0'
            b = code[mm_sl.start(4):mm_sl.end(4)].strip() or ('%s.len()' % v)
            inner = code[ob + 1:cb]
            if re.search(r'(?<![A-Za-z0-9_])continue(?![A-Za-z0-9_])', mask(inner)):
                raise ExtractError('slice loop with `continue` cannot become a counter loop')
            rep = ('{ let lo__: usize = %s; let hi__: usize = %s; vx::check_slice_range(lo__, hi__, %s.len()); let mut i__: usize = lo__; '
                   'while i__ < hi__ /*@auto invariant lo__ <= i__ <= hi__ <= %s.len(); decreases hi__ - i__*/ { let %s = &%s[i__]; %s\n i__ += 1; } }'
                   % (a, b, v, v, x, v, inner))
            code = code[:mm_sl.start()] + rep + code[cb + 1:]
            k_sl += 1
        self.note('for x in &v[a..b]->counter loop with the slice range check', k_sl)
        # `O.map_or(D, |v| E)` -> match
        k_mo = 0
        while True:
            m_mo = mask(code)
            mm_mo = re.search(r'\.\s*map_or\s*\(', m_mo)
            if not mm_mo:
                break
            op = mm_mo.end() - 1
            cp = match_close(m_mo, op)
            args = split_args(code[op + 1:cp])
            cm = re.match(r'^\|\s*([a-z_][a-z0-9_]*)\s*\|\s*(.*)$', args[1].strip(), re.S) if len(args) == 2 else None
            if not cm:
                raise ExtractError('map_or of unsupported shape')
            rs = recv_start(m_mo, mm_mo.start())
            recv = code[rs:mm_mo.start()].strip()
            code = code[:rs] + '(match %s { Some(%s) => %s, None => %s })' % (recv, cm.group(1), cm.group(2), args[0].strip()) + code[cp + 1:]
            k_mo += 1
        self.note('opt.map_or(d, |v| e)->match', k_mo)
        # `O.as_ref().map(|v| E)` (E a plain expression over v) -> match
        k_om = 0
        while True:
            m_om = mask(code)
            mm_om = re.search(r'\.\s*as_ref\s*\(\s*\)\s*\.\s*map\s*\(', m_om)
            if not mm_om:
                break
            op = mm_om.end() - 1
            cp = match_close(m_om, op)
            arg = code[op + 1:cp].strip()
            cm = re.match(r'^\|\s*([a-z_][a-z0-9_]*)\s*\|\s*([^{}|;]*)$', arg, re.S)
            if not cm:
                break
            rs = recv_start(m_om, mm_om.start())
            recv = code[rs:mm_om.start()].strip()
            code = code[:rs] + '(match %s.as_ref() { Some(%s) => Some(%s), None => None })' % (recv, cm.group(1), cm.group(2).strip()) + code[cp + 1:]
            k_om += 1
        self.note('opt.as_ref().map(|v| e)->match', k_om)
        # `(A..=B).contains(&X)` on integers -> (A <= X && X <= B)
        k_rc = 0
        while True:
            m_rc = mask(code)
            mm_rc = re.search(r'\(\s*([0-9]+(?:\.[0-9]+)?)\s*\.\.=\s*([0-9]+(?:\.[0-9]+)?)\s*\)\s*\.\s*contains\s*\(\s*&', m_rc)
            if not mm_rc:
                break
            op_rc = m_rc.index('(', mm_rc.end() - 3) if False else mm_rc.end() - 1
            # position of the '(' of contains(
            op_rc = m_rc.rfind('(', 0, mm_rc.end())
            cp_rc = match_close(m_rc, op_rc)
            arg = code[mm_rc.end():cp_rc].strip()
            if '.' in mm_rc.group(1) or '.' in mm_rc.group(2):
                code = code[:mm_rc.start()] + 'vx::f64_in(%s, %s, %s)' % (arg, mm_rc.group(1), mm_rc.group(2)) + code[cp_rc + 1:]
            else:
                code = code[:mm_rc.start()] + '(%s <= %s && %s <= %s)' % (mm_rc.group(1), arg, arg, mm_rc.group(2)) + code[cp_rc + 1:]
            k_rc += 1
        self.note('(a..=b).contains(&x)->(a <= x && x <= b)', k_rc)
        # `let x: u32 = EXPR.parse()...;`  (target type given by the let annotation) -> EXPR.vx_parse_u32()
        k_tp = 0
        pos_tp = 0
        while True:
            m_tp = mask(code)
            mm_tp = re.compile(r'(?<![A-Za-z0-9_])let\s+(?:mut\s+)?[a-z_][a-z0-9_]*\s*:\s*(u8|u16|u32|usize|i32)\s*=').search(m_tp, pos_tp)
            if not mm_tp:
                break
            j, depth = mm_tp.end(), 0
            while j < len(m_tp) and not (m_tp[j] == ';' and depth == 0):
                if m_tp[j] in '([{':
                    depth += 1
                elif m_tp[j] in ')]}':
                    depth -= 1
                j += 1
            seg = m_tp[mm_tp.end():j]
            pm = re.search(r'\.\s*parse\s*\(\s*\)', seg)
            if pm:
                a, b = mm_tp.end() + pm.start(), mm_tp.end() + pm.end()
                code = code[:a] + '.vx_parse_%s()' % mm_tp.group(1) + code[b:]
                k_tp += 1
            pos_tp = mm_tp.end()
        self.note('let x: T = s.parse()->vx_parse_T', k_tp)
        code = self.method_to_fn(code, METHOD_RULES_PRE)
        if not opts.get('no_str_slice'):
            code = self.str_slices(code, skip_names=tuple(opts.get('noslice', ())))
        code = self.method_to_fn(code, [r for r in METHOD_RULES if r[3] not in opts.get('norule', ())])
        return code


def to_spec(expr: str) -> str:
    """exec boolean expression -> the same expression in spec mode (views instead of String/str equality,
    spec predicates instead of the std search functions)"""
    e = expr
    # X == "lit" / X != "lit"   (X a place expression)
    e = re.sub(r'([A-Za-z_][A-Za-z0-9_.]*(?:\(\))?)\s*(==|!=)\s*("(?:\\.|[^"\\])*")', r'\1@ \2 \3@', e)
    e = re.sub(r'("(?:\\.|[^"\\])*")\s*(==|!=)\s*([A-Za-z_][A-Za-z0-9_.]*)', r'\1@ \2 \3@', e)
    # X.contains(P) / X.vx_contains(P)
    e = re.sub(r'([A-Za-z_][A-Za-z0-9_.]*)\s*\.\s*(?:vx_)?contains\s*\(\s*("(?:\\.|[^"\\])*")\s*\)', r'vx::contains_seq(\1@, \2@)', e)
    e = re.sub(r'([A-Za-z_][A-Za-z0-9_.]*)\s*\.\s*(?:vx_)?starts_with\s*\(\s*("(?:\\.|[^"\\])*")\s*\)', r'vx::is_sub_at(\1@, \2@, 0)', e)
    # X.starts_with(name) with a string variable (two or more letters; a single letter is a char by the convention below)
    e = re.sub(r'([A-Za-z_][A-Za-z0-9_.]*)\s*\.\s*(?:vx_)?starts_with\s*\(\s*&?\s*([a-z_][a-z0-9_]+)\s*\)', r'vx::is_sub_at(\1@, \2@, 0)', e)
    # STR.contains(c) with a single-letter (char) argument
    e = re.sub(r'([A-Za-z_][A-Za-z0-9_.]*)\s*\.\s*(?:vx_)?contains\s*\(\s*([a-z])\s*\)', r'vx::contains_seq(\1@, seq![\2])', e)
    # X.is_empty() on a Vec / String place: exec only; its specification is `X@.len() == 0`
    e = re.sub(r'([A-Za-z_][A-Za-z0-9_.]*)\s*\.\s*is_empty\s*\(\s*\)', r'(\1@.len() == 0)', e)
    e = e.replace('.as_str()@', '@')
    e = re.sub(r'([A-Za-z_][A-Za-z0-9_.]*)\s*\.\s*as_ref\s*\(\s*\)', r'vx::opt_ref(&\1)', e)
    return e


def ref_of(recv: str) -> str:
    r = recv.strip()
    if r.startswith('&'):
        return r
    return '&' + r if not re.match(r'^(self\.)?[a-z_][a-z0-9_]*$', r) or True else r


def pat_kind(p: str):
    p = p.strip()
    if re.match(r'^"(\\.|[^"\\])*"$', p):
        return 'str'
    if re.match(r'^Some\s*\(\s*"(\\.|[^"\\])*"\s*\)$', p):
        return 'somestr'
    if p == '_' or re.match(r'^Some\s*\(\s*_\s*\)$', p):
        return 'wild'
    if p == 'None':
        return 'none'
    if re.match(r'^Some\s*\(\s*[a-z_][a-z0-9_]*\s*\)$', p):
        return 'somebind'
    if re.match(r'^[a-z_][a-z0-9_]*$', p):
        return 'bind'
    return None


def parse_arms(text: str):
    """parse match arms; returns list of (patterns, guard, body) or None if unsupported"""
    m = mask(text)
    arms = []
    i, n = 0, len(text)
    while True:
        while i < n and m[i] in ' \t\n,':
            i += 1
        if i >= n:
            break
        # pattern up to '=>' at depth 0
        depth, j = 0, i
        arrow = None
        while j < n - 1:
            ch = m[j]
            if ch in '([{':
                depth += 1
            elif ch in ')]}':
                depth -= 1
            elif ch == '=' and m[j + 1] == '>' and depth == 0:
                arrow = j
                break
            j += 1
        if arrow is None:
            return None
        pat_txt = text[i:arrow].strip()
        guard = None
        gm = re.search(r'(?<![A-Za-z0-9_])if\s', mask(pat_txt))
        if gm:
            guard = pat_txt[gm.end():].strip()
            pat_txt = pat_txt[:gm.start()].strip()
        # split alternatives at top-level |
        pm = mask(pat_txt)
        pats, depth, last = [], 0, 0
        for t, ch in enumerate(pm):
            if ch in '([{':
                depth += 1
            elif ch in ')]}':
                depth -= 1
            elif ch == '|' and depth == 0:
                pats.append(pat_txt[last:t].strip()); last = t + 1
        pats.append(pat_txt[last:].strip())
        pats = [p for p in pats if p]
        # body
        j = arrow + 2
        while j < n and m[j] in ' \t\n':
            j += 1
        if j < n and m[j] == '{':
            cb = match_close(m, j)
            body = text[j:cb + 1]
            i = cb + 1
        else:
            depth, k = 0, j
            while k < n:
                ch = m[k]
                if ch in '([{':
                    depth += 1
                elif ch in ')]}':
                    depth -= 1
                elif ch == ',' and depth == 0:
                    break
                k += 1
            body = text[j:k]
            i = k + 1
        arms.append((pats, guard, body))
    return arms


# method -> wrapper rules (regex matched on masked text, must end at the opening paren)
METHOD_RULES_PRE = [
    (r'\.\s*any\s*\(', 'vx::vec_any', 'strip_iter', 'vec.iter().any->vx::vec_any'),
    (r'\.\s*all\s*\(', 'vx::vec_all', 'strip_iter', 'vec.iter().all->vx::vec_all'),
]
METHOD_RULES = [
    (r'\.\s*lines\s*\(\s*\)\s*\.\s*map\s*\(\s*\|\s*s\s*\|\s*s\s*\.\s*to_string\s*\(\s*\)\s*\)\s*\.\s*filter\s*\(\s*\|\s*s\s*\|\s*!\s*s\s*\.\s*is_empty\s*\(\s*\)\s*\)\s*\.\s*collect\s*\(\s*\)', 'vx_nonempty_lines()', 'rename_whole', 'str.lines().map(to_string).filter(non-empty).collect()->vx_nonempty_lines'),
    (r'\.\s*lines\s*\(\s*\)\s*\.\s*filter\s*\(\s*\|\s*s\s*\|\s*!\s*s\s*\.\s*is_empty\s*\(\s*\)\s*\)\s*\.\s*map\s*\(\s*\|\s*s\s*\|\s*s\s*\.\s*to_string\s*\(\s*\)\s*\)\s*\.\s*collect\s*\(\s*\)', 'vx_nonempty_lines()', 'rename_whole', 'str.lines().filter(non-empty).map(to_string).collect()->vx_nonempty_lines'),
    (r'\.\s*abs\s*\(\s*\)\s*<\s*([0-9.]+)', r'vx_abs_lt(\1)', 'replace_tail', 'f64.abs() < c -> vx_abs_lt(c)'),
    (r'\.\s*format\s*\(\s*"%y%m%d"\s*\)', 'vx_fmt_yymmdd()', 'rename_whole', 'chrono NaiveDate.format("%y%m%d")->vx_fmt_yymmdd'),
    (r'\.\s*format\s*\(\s*"%H%M"\s*\)', 'vx_fmt_hhmm()', 'rename_whole', 'chrono NaiveTime.format("%H%M")->vx_fmt_hhmm'),
    (r'\(\s*&\s*([A-Za-z_][A-Za-z0-9_.]*)\s+as\s+&\s*dyn\s+Any\s*\)\s*\.\s*downcast_ref\s*::\s*<\s*(?:[A-Za-z_0-9]+\s*::\s*)*([A-Za-z_0-9]+)\s*>\s*\(\s*\)', r'crate::anyx::downcast_\2(&\1)', 'replace_whole', '(&x as &dyn Any).downcast_ref::<T>()->anyx::downcast_T(&x)'),
    (r'\.\s*parse\s*::\s*<\s*(u32|i32|u8|u16|u64|usize|f64)\s*>\s*\(', r'vx_parse_\1', 'rename', 'str.parse::<T>->vx_parse_T'),
    (r'\.\s*trim_end_matches\s*\(\s*\[\s*(\x27[^\x27]+\x27)\s*,\s*(\x27[^\x27]+\x27)\s*\]\s*\)', r'vx_trim_end_matches2(\1, \2)', 'replace_tail', 'str.trim_end_matches([c1, c2])->vx_trim_end_matches2'),
    (r'\.\s*trim_start_matches\s*\(\s*\|\s*c\s*:\s*char\s*\|\s*c\s*\.\s*is_whitespace\s*\(\s*\)\s*\)', 'vx_trim_start()', 'rename_whole', 'str.trim_start_matches(is_whitespace)->vx_trim_start'),
    (r'(?#%: matched on the unmasked text, the pattern contains a char literal)\.\s*matches\s*\(\s*(\x27(?:\\.|[^\x27\\])\x27)\s*\)\s*\.\s*count\s*\(\s*\)', r'vx_count_char(\1)', 'replace_tail', 'str.matches(c).count()->vx_count_char'),
    (r'\.\s*chars\s*\(\s*\)\s*\.\s*nth\s*\(', 'vx_nth_char', 'rename', 'str.chars().nth->vx_nth_char'),
    (r'\.\s*chars\s*\(\s*\)\s*\.\s*last\s*\(', 'vx_last_char', 'rename', 'str.chars().last->vx_last_char'),
    (r'\.\s*lines\s*\(\s*\)\s*\.\s*collect\s*(::\s*<[^()]*>)?\s*\(', 'vx_lines', 'rename', 'str.lines().collect->vx_lines'),
    (r'\.\s*lines\s*\(\s*\)\s*\.\s*count\s*\(\s*\)', 'vx_lines().len()', 'rename_whole', 'str.lines().count()->vx_lines().len()'),
    (r'\.\s*lines\s*\(\s*\)\s*\.\s*map\s*\(\s*\|\s*([a-z_]+)\s*\|\s*\1\s*\.\s*to_string\s*\(\s*\)\s*\)\s*\.\s*collect\s*\(\s*\)', 'vx_lines_owned()', 'rename_whole', 'str.lines().map(to_string).collect()->vx_lines_owned'),
    (r'\.\s*abs\s*\(\s*\)', 'vx_abs()', 'rename_whole', 'f64.abs()->vx_abs'),
    (r'\.\s*as_deref\s*\(\s*\)', 'vx_as_deref()', 'rename_whole', 'Option<String>.as_deref()->vx_as_deref'),
    (r'\.\s*to_digit\s*\(\s*10\s*\)', 'vx_to_digit10()', 'rename_whole', 'char.to_digit(10)->vx_to_digit10'),
    (r'\.\s*replace\s*\(\s*\x27', 'vx_replace_char', 'rename_keep_tail', 'str.replace(char,_)->vx_replace_char'),
    (r'\.\s*extend\s*\(', 'vx_extend', 'rename', 'Vec.extend(vec)->vx_extend'),
    (r'\.\s*replace\s*\(\s*"', 'vx_replace', 'rename_keep_tail', 'str.replace(&str,&str)->vx_replace'),
] + [
    (r'\.\s*%s\s*\(' % m, 'vx_%s' % m, 'rename', 'str.%s->vx_%s' % (m, m))
    for m in ('starts_with', 'ends_with', 'contains', 'find', 'rfind', 'strip_prefix', 'trim', 'trim_start', 'trim_end',
              'trim_end_matches', 'trim_start_matches', 'to_uppercase', 'to_lowercase', 'split_at', 'join', 'insert', 'remove')
]


class _Groups:
    """a regex match with its groups renumbered (keeps the rest of a rule unchanged when the pattern grows)"""
    def __init__(self, mm, remap):
        self._mm, self._remap = mm, remap
    def group(self, k):
        return self._mm.group(self._remap.get(k, k))
    def start(self, *a):
        return self._mm.start(*a)
    def end(self, *a):
        return self._mm.end(*a)


# --------------------------------------------------------------------------------------
# high level
# --------------------------------------------------------------------------------------
class Source:
    _cache = {}

    def __init__(self, path):
        self.path = path
        self.src = open(path, encoding='utf-8').read()
        self.masked = mask(self.src)

    @classmethod
    def get(cls, path):
        if path not in cls._cache:
            cls._cache[path] = Source(path)
        return cls._cache[path]

    def fn(self, name, scope=None):
        lo, hi = 0, len(self.src)
        if scope:
            # several blocks may carry the same header (`impl MT940 { .. }` twice): take the first one that holds the fn
            start = 0
            last_err = None
            while True:
                try:
                    _, ob, cb = find_block(self.src, self.masked, scope, start)
                except ExtractError as e:
                    raise last_err or e
                try:
                    s, fob, fcb = find_fn(self.src, self.masked, name, ob + 1, cb)
                    return self.src[s:fob], self.src[fob:fcb + 1]
                except ExtractError as e:
                    last_err = e
                    start = cb + 1
        s, ob, cb = find_fn(self.src, self.masked, name, lo, hi)
        return self.src[s:ob], self.src[ob:cb + 1]

    def item(self, kind, name):
        s, e = find_item(self.src, self.masked, kind, name)
        return self.src[s:e]


def named_return(sig: str, rname: str):
    """`-> T` => `-> (rname: T)`; returns (sig, had_return)"""
    m = mask(sig)
    # find top-level '->' after the parameter list
    po = m.index('(')
    pc = match_close(m, po)
    k = m.find('->', pc)
    if k < 0:
        return sig, False
    w = re.search(r'(?<![A-Za-z0-9_])where(?![A-Za-z0-9_])', m[k:])
    end = k + w.start() if w else len(sig)
    ty = sig[k + 2:end].strip()
    if ty.startswith('(') and re.match(r'\(\s*[a-z_][a-z0-9_]*\s*:', ty):
        return sig, True
    return sig[:k] + '-> (%s: %s) ' % (rname, ty) + sig[end:], True


def loops_in(body: str):
    """positions (index of the '{' opening each loop body) of while/for/loop in textual order"""
    m = mask(body)
    res = []
    for mm in re.finditer(r'(?<![A-Za-z0-9_.])(while|for|loop)(?![A-Za-z0-9_])', m):
        kw = mm.group(1)
        j = mm.end()
        if kw == 'for':
            # `for<'a>` bounds are not loops
            rest = m[j:].lstrip()
            if rest.startswith('<'):
                continue
        depth = 0
        while j < len(m):
            ch = m[j]
            if ch in '([':
                depth += 1
            elif ch in ')]':
                depth -= 1
            elif ch == '{' and depth == 0:
                break
            j += 1
        if j >= len(m):
            continue
        res.append((mm.start(), kw, j))
    return res


def split_stmts(inner: str):
    """split the inside of a block into top-level statements (text chunks, in order)"""
    m = mask(inner)
    out, depth, last, i, n = [], 0, 0, 0, len(inner)
    while i < n:
        ch = m[i]
        if ch in '([{':
            depth += 1
        elif ch in ')]}':
            depth -= 1
            if depth == 0 and ch == '}':
                # block-like statement ends here unless followed by else / method call / operator / ; / ?
                k = i + 1
                while k < n and m[k] in ' \t\n':
                    k += 1
                rest = m[k:k + 6]
                if not (rest.startswith('else') or rest[:1] in ('.', ';', '?', ',', ')') or rest[:2] in ('&&', '||', '==', '!=') or rest[:1] in ('+', '-', '*', '/', '=')) or k >= n:
                    # only when the statement started with a block keyword
                    head = inner[last:i + 1].lstrip()
                    if re.match(r'(if|for|while|loop|match|unsafe|\{|proof)\b', head) or head.startswith('{'):
                        out.append(inner[last:i + 1]); last = i + 1
        elif ch == ';' and depth == 0:
            out.append(inner[last:i + 1]); last = i + 1
        i += 1
    tail = inner[last:]
    if tail.strip():
        out.append(tail)
    return out


def slice_body(body: str, var: str, field: str):
    """program slice of a straight-line builder function w.r.t. one field of the struct it builds.
    Rule (purely syntactic, reported in the evidence): a top-level statement is DROPPED iff every occurrence of `var`
    in it has the form `var.<other field>` (other != field), and it contains no return / ? / break / continue / panic.
    Dropped statements therefore cannot write `var.field`, cannot replace `var`, and cannot leave the function."""
    ob = body.index('{')
    cb = body.rindex('}')
    stmts = split_stmts(body[ob + 1:cb])
    kept, dropped = [], []
    for st in stmts:
        mm = mask(st)
        occ = [x for x in re.finditer(r'(?<![A-Za-z0-9_.])' + re.escape(var) + r'(?![A-Za-z0-9_])', mm)]
        if not occ:
            kept.append(st); continue
        only_other = True
        for x in occ:
            f = re.match(r'\s*\.\s*([A-Za-z_][A-Za-z0-9_]*)', mm[x.end():])
            if not f or f.group(1) == field:
                only_other = False
        escapes = re.search(r'(?<![A-Za-z0-9_])(return|break|continue)(?![A-Za-z0-9_])|\?|panic!|unreachable!', mm)
        if only_other and not escapes:
            dropped.append(st)
        else:
            kept.append(st)
    return body[:ob + 1] + ''.join(kept) + body[cb:], len(dropped)


def _cond_span(m, start):
    """masked text, index just after `if ` -> index of the body brace at depth 0"""
    j, depth = start, 0
    while j < len(m):
        ch = m[j]
        if ch in '([':
            depth += 1
        elif ch in ')]':
            depth -= 1
        elif ch == '{' and depth == 0:
            return j
        j += 1
    return -1


def abs_format_args(body: str):
    """abstraction used for the tag-prefix obligations: every argument of a `format!` call that is not a plain place
    expression (`x`, `self.a.b`) is replaced by the unconstrained `vx::any_arg()`.  The literal part of the format
    string is kept, so a postcondition about the literal prefix proved on the abstraction holds for the real body; what the
    replaced arguments compute (and whether they can panic) is NOT covered."""
    n = 0
    pos = 0
    guard = 0
    while True:
        guard += 1
        if guard > 300:
            raise ExtractError('abs_format_args loop')
        m = mask(body)
        mm = re.compile(r'(?<![A-Za-z0-9_])format!\s*\(').search(m, pos)
        if not mm:
            break
        op = mm.end() - 1
        cp = match_close(m, op)
        inner_m = m[op + 1:cp]
        inner = body[op + 1:cp]
        parts, depth, last = [], 0, 0
        for k, ch in enumerate(inner_m):
            if ch in '([{':
                depth += 1
            elif ch in ')]}':
                depth -= 1
            elif ch == ',' and depth == 0:
                parts.append(inner[last:k]); last = k + 1
        parts.append(inner[last:])
        new_parts = [parts[0]]
        for a in parts[1:]:
            t = a.strip()
            if not t:
                continue
            if re.match(r'^&?\s*(self\s*\.\s*)?[a-z_][a-z0-9_]*(\s*\.\s*[a-z_][a-z0-9_]*)*$', t) or re.match(r'^[a-z_][a-z0-9_]*\s*=', t):
                new_parts.append(a)
            else:
                new_parts.append(' vx::any_arg()'); n += 1
        rep = ','.join(new_parts)
        body = body[:op + 1] + rep + body[cp:]
        pos = op + 1 + len(rep)
    # a top-level `let x = EXPR;` (escape-free) whose variable is read only inside format! argument lists is abstracted too
    ob = body.index('{')
    cb = body.rindex('}')
    stmts = split_stmts(body[ob + 1:cb])
    m_all = mask(body)
    fmt_spans = []
    for mm in re.finditer(r'(?<![A-Za-z0-9_])format!\s*\(', m_all):
        fmt_spans.append((mm.end(), match_close(m_all, mm.end() - 1)))
    out = []
    for st in stmts:
        ms = mask(st)
        lm = re.match(r'\s*let\s+(?:mut\s+)?([a-z_][a-z0-9_]*)\s*(?::[^=]*)?=', ms)
        if lm and ms.rstrip().endswith(';') and 'format!' not in ms and not re.search(r'(?<![A-Za-z0-9_])return(?![A-Za-z0-9_])|\?|panic!', ms):
            v = lm.group(1)
            occ = [x.start() for x in re.finditer(r'(?<![A-Za-z0-9_.])' + re.escape(v) + r'(?![A-Za-z0-9_])', m_all)]
            s0 = body.index(st)
            outside = [o for o in occ if not (s0 <= o < s0 + len(st))]
            if outside and all(any(a <= o < b for a, b in fmt_spans) for o in outside):
                lead = st[:len(st) - len(st.lstrip())]
                out.append('%slet %s = vx::any_arg();' % (lead, v)); n += 1
                continue
        out.append(st)
    body = body[:ob + 1] + ''.join(out) + body[cb:]
    return body, n


def havoc_guards(body: str):
    """abstraction used for the option heuristics (C14): every `if COND {` / `while COND {` whose condition is not a
    `let` pattern gets the condition replaced by the unconstrained `vx::havoc()`, then top-level statements that became
    dead are dropped: a `let` whose variable is no longer read by a kept statement, and an escape-free loop / assignment
    that only writes such variables.  The abstraction only ADDS behaviours (every guard may go both ways), so a
    postcondition proved on it holds for the real body; panics inside dropped statements are NOT covered."""
    n_h = 0
    guard = 0
    pos = 0
    while True:
        guard += 1
        if guard > 500:
            raise ExtractError('havoc_guards loop')
        m = mask(body)
        mm = None
        for x in re.finditer(r'(?<![A-Za-z0-9_])(if|while)\s', m):
            if x.start() < pos:
                continue
            mm = x
            break
        if not mm:
            break
        j = _cond_span(m, mm.end())
        if j < 0:
            pos = mm.end(); continue
        cond = m[mm.end():j].strip()
        if cond.startswith('let ') or cond.startswith('vx::havoc()'):
            pos = mm.end(); continue
        body = body[:mm.end()] + 'vx::havoc() ' + body[j:]
        n_h += 1
        pos = mm.end()
    # dead statement elimination, at every nesting depth of if/else/plain blocks (loops are atomic), to a fixpoint
    def collect(text, base, out):
        pos = 0
        for st in split_stmts(text):
            k = text.index(st, pos)
            pos = k + len(st)
            lead = len(st) - len(st.lstrip())
            out.append((base + k + lead, base + k + len(st), st[lead:]))
            ms = mask(st)
            head = ms.lstrip()
            if re.match(r'(if\b|\{)', head):
                depth, j = 0, 0
                while j < len(ms):
                    ch = ms[j]
                    if ch in '([':
                        depth += 1
                    elif ch in ')]':
                        depth -= 1
                    elif ch == '{' and depth == 0:
                        e = match_close(ms, j)
                        collect(st[j + 1:e], base + k + j + 1, out)
                        j = e
                    j += 1
        return out
    nd = 0
    for _round in range(60):
        ob = body.index('{')
        cb = body.rindex('}')
        stmts = collect(body[ob + 1:cb], ob + 1, [])
        mb = mask(body)

        def occurrences_outside(v, s0, e0):
            return [x.start() for x in re.finditer(r'(?<![A-Za-z0-9_.])' + re.escape(v) + r'(?![A-Za-z0-9_])', mb) if not (s0 <= x.start() < e0)]
        victim = None
        for (s0, e0, st) in stmts:
            ms = mask(st)
            if re.search(r'(?<![A-Za-z0-9_])return(?![A-Za-z0-9_])|\?|panic!|unreachable!', ms):
                continue
            lm = re.match(r'let\s+(?:mut\s+)?([a-z_][a-z0-9_]*)\s*(?::[^=]*)?=', ms)
            if lm and ms.rstrip().endswith(';'):
                if not occurrences_outside(lm.group(1), s0, e0):
                    victim = (s0, e0); break
                continue
            if re.match(r'(for|while|loop)\b', ms):
                inner_lets = set(re.findall(r'(?<![A-Za-z0-9_])let\s+(?:mut\s+)?([a-z_][a-z0-9_]*)', ms)) | set(re.findall(r'(?<![A-Za-z0-9_])for\s+\(?\s*([a-z_][a-z0-9_]*)', ms))
                assigned = set(re.findall(r'(?<![A-Za-z0-9_.])([a-z_][a-z0-9_]*)\s*(?:=(?!=)|\+=|-=)', ms)) - inner_lets
                if re.search(r'(?<![A-Za-z0-9_])self\s*\.\s*[a-z_0-9]+\s*(?:=(?!=)|\+=)|\.\s*(push|push_str|insert|extend|clear|remove)\s*\(', ms):
                    continue
                ok = True
                for v in assigned:
                    for o in occurrences_outside(v, s0, e0):
                        # allowed only inside the declaring `let [mut] v = ...;`
                        decl = [1 for (s1, e1, st1) in stmts if s1 <= o < e1 and re.match(r'let\s+(?:mut\s+)?' + re.escape(v) + r'\b', mask(st1)) and not re.match(r'(if|for|while|loop|\{)', mask(st1))]
                        if not decl:
                            ok = False
                if ok:
                    victim = (s0, e0); break
        if not victim:
            break
        body = body[:victim[0]] + body[victim[1]:]
        nd += 1
    return body, n_h, nd


def slice_acc(body: str, acc: str, keep_expr: str):
    """program slice of an append-only accumulator function w.r.t. one source expression.
    Rule: a top-level statement is DROPPED iff it does not mention `keep_expr`, every use of `acc` in it is an append
    (`acc.push_str(` / `acc.push(`), and it contains no return / ? / break / continue / panic.  Dropped statements can only
    append to `acc`; the clauses proved on the slice are monotone under appends (`has(r, piece)`), which is what makes
    the rule sound for them."""
    ob = body.index('{')
    cb = body.rindex('}')
    stmts = split_stmts(body[ob + 1:cb])
    kept, dropped = [], []
    for st in stmts:
        mm = mask(st)
        if keep_expr in st:
            kept.append(st); continue
        occ = [x for x in re.finditer(r'(?<![A-Za-z0-9_.])' + re.escape(acc) + r'(?![A-Za-z0-9_])', mm)]
        if not occ:
            kept.append(st); continue
        append_only = all(re.match(r'\s*\.\s*(push_str|push)\s*\(', mm[x.end():]) for x in occ)
        escapes = re.search(r'(?<![A-Za-z0-9_])(return|break|continue)(?![A-Za-z0-9_])|\?|panic!|unreachable!', mm)
        if append_only and not escapes:
            dropped.append(st)
        else:
            kept.append(st)
    return body[:ob + 1] + ''.join(kept) + body[cb:], len(dropped)
