#!/usr/bin/env python3
"""assemble -- build one Verus file per verification unit.

A unit description (units/<name>.vu) is a Verus source text with directives:

  //@include <file under /verif/verus>          textual include (trusted prelude, proved lemma library)
  //@type <repo file> <struct|enum> <Name> [derive(A,B)] [as <NewName>]
                                                 copy the type definition from /repo (attributes dropped)
  //@const <repo file> <NAME>                    copy a const/static item
  //@fn <repo file> <fn name> [in "<impl header>"] [ret=<name>] [mod=<module>] [as=<newname>]
        [noslice=a,b] [norule=label,...] [opt=...] [props=C01,C07]
     <contract sections>
  //@end

contract sections (plain lines between //@fn and //@end):
  requires            followed by clause lines
  ensures             followed by clauses, each starting with a tag  [C05,C11 clause.id]
  decreases <expr>
  loop <n> [iter=<ident>]       then lines `invariant`, `decreases`, `invariant_except_break`, `ensures`
  hint before "<anchor>"  /  hint after "<anchor>"     then the lines to insert (proof blocks)
  body replace "<old>" => "<new>"                       rare, reported in evidence as a manual rewrite

Everything between directives is copied verbatim (spec functions, lemmas, trait skeletons).
The assembler records, for every generated line, where it comes from, so that a Verus diagnostic can
be mapped back to (repo file, function, clause id, properties).
"""
import os
import re
import sys
import json

sys.path.insert(0, os.path.dirname(os.path.abspath(__file__)))
import rsx
from rsx import ExtractError

VERIF = os.path.dirname(os.path.dirname(os.path.abspath(__file__)))
REPO = os.environ.get('VERIF_REPO', '/repo')


class Clause:
    def __init__(self, cid, props, fn, text, kind='ensures'):
        self.cid, self.props, self.fn, self.text, self.kind = cid, props, fn, text, kind
        self.lines = None  # (start,end) in assembled file, 1-based inclusive


class FnRec:
    def __init__(self, file, name, scope, emitted_name, module):
        self.file, self.name, self.scope = file, name, scope
        self.emitted_name, self.module = emitted_name, module
        self.props = set()
        self.clauses = []
        self.lines = None
        self.n_requires = 0
        self.sha = None
        self.impl = None
        self.skipped_hints = []

    @property
    def key(self):
        return '%s::%s%s' % (self.file, (self.scope + '::') if self.scope else '', self.name) + (('@' + self.module) if self.module else '')


class Assembled:
    def __init__(self):
        self.lines = []
        self.fns = []
        self.clauses = []
        self.rewrites = {}
        self.types = []
        self.includes = []
        self.manual = []
        self.unit_props = set()

    def add(self, text):
        """append text, return (first_line, last_line) 1-based"""
        ls = text.split('\n')
        start = len(self.lines) + 1
        self.lines.extend(ls)
        return start, len(self.lines)

    def text(self):
        return '\n'.join(self.lines) + '\n'


def parse_kv(tokens):
    kv = {}
    for t in tokens:
        if '=' in t:
            k, v = t.split('=', 1)
            kv[k] = v
    return kv


def _split_directive(line):
    # tokens with quoted strings kept whole
    return re.findall(r'(?:[^\s"]+|"[^"]*")+', line)


def parse_contract(lines, fnrec, unit_name):
    """returns dict: requires[list], ensures[list of Clause], decreases, loops{n:{...}}, hints[list], bodyrep[list]"""
    c = dict(requires=[], ensures=[], decreases=None, loops={}, hints=[], bodyrep=[], recommends=[], fmtcat=[], okassert=[])
    section = None
    cur = None
    for raw in lines:
        line = raw.rstrip('\n')
        s = line.strip()
        if not s:
            if section in ('hint',) and cur is not None:
                cur['text'].append('')
            continue
        m = re.match(r'^(requires|ensures|recommends)\s*$', s)
        if m:
            section = m.group(1); cur = None; continue
        m = re.match(r'^decreases\s+(.*)$', s)
        if m and section != 'loop':
            c['decreases'] = m.group(1).rstrip(','); continue
        m = re.match(r'^loop\s+(\d+)(.*)$', s)
        if m:
            section = 'loop'
            cur = dict(invariant=[], decreases=None, iter=None, ensures=[], inv_except_break=[], bodystart=[], before=[])
            kv = parse_kv(m.group(2).split())
            cur['iter'] = kv.get('iter')
            c['loops'][int(m.group(1))] = cur
            sub = None
            continue
        m = re.match(r'^hint\s+(beforelast|before|after|start|end)\s*(".*")?\s*(#\d+)?\s*$', s)
        if m:
            section = 'hint'
            cur = dict(where=m.group(1), anchor=(m.group(2) or '""')[1:-1], nth=int((m.group(3) or '#1')[1:]), text=[])
            c['hints'].append(cur)
            continue
        if s == 'okassert':
            section = 'okassert'; cur = None
            continue
        m = re.match(r'^fmtcat\s+(\*|".*")\s*$', s)
        if m:
            c['fmtcat'].append(m.group(1).strip('"'))
            continue
        m = re.match(r'^body\s+replace\s+("(?:[^"\\]|\\.)*")\s*=>\s*("(?:[^"\\]|\\.)*")\s*$', s)
        if m:
            c['bodyrep'].append((json.loads(m.group(1)), json.loads(m.group(2))))
            continue
        if section == 'requires':
            c['requires'].append(s.rstrip(','))
        elif section == 'recommends':
            c['recommends'].append(s.rstrip(','))
        elif section == 'ensures':
            m = re.match(r'^\[([A-Z0-9,]+)\s+([^\]]+)\]\s*(.*)$', s)
            if m:
                props = set(m.group(1).split(','))
                cl = Clause('%s/%s' % (fnrec.emitted_name if not fnrec.module else fnrec.module + '::' + fnrec.emitted_name, m.group(2).strip()), props, fnrec, m.group(3))
                c['ensures'].append(cl)
                cur = cl
            else:
                if cur is None:
                    raise ExtractError('%s: ensures clause without [PROPS id] tag: %s' % (fnrec.name, s))
                cur.text += '\n        ' + s
        elif section == 'loop':
            m = re.match(r'^bodystart\s+(.*)$', s)
            if m:
                cur['bodystart'].append(m.group(1))
                continue
            m = re.match(r'^before\s+(.*)$', s)
            if m:
                cur['before'].append(m.group(1))
                continue
            m = re.match(r'^(invariant_except_break|invariant|decreases|ensures)\s*(.*)$', s)
            if m:
                sub = m.group(1)
                rest = m.group(2).strip()
                if sub == 'decreases':
                    cur['decreases'] = rest.rstrip(',')
                    continue
                if rest:
                    s = rest
                else:
                    continue
            key = {'invariant': 'invariant', 'ensures': 'ensures', 'invariant_except_break': 'inv_except_break'}.get(sub)
            if key is None:
                raise ExtractError('loop clause outside invariant/ensures: ' + s)
            cur[key].append(s.rstrip(','))
        elif section == 'hint':
            cur['text'].append(line)
        elif section == 'okassert':
            c['okassert'].append(line)
        else:
            raise ExtractError('%s: contract line outside a section: %s' % (fnrec.name, s))
    for cl in c['ensures']:
        cl.text = cl.text.rstrip().rstrip(',')
    return c


def insert_at_anchor(body, where, anchor, nth, text):
    m = rsx.mask(body)
    if where == 'start':
        i = body.index('{') + 1
        return body[:i] + '\n' + text + '\n' + body[i:]
    if where == 'end':
        i = body.rindex('}')
        return body[:i] + '\n' + text + '\n' + body[i:]
    if where == 'beforelast':
        pos = body.rfind(anchor)
        if pos < 0:
            raise ExtractError('hint anchor not found: %r' % anchor)
        ls = body.rfind('\n', 0, pos) + 1
        return body[:ls] + text + '\n' + body[ls:]
    pos = -1
    for _ in range(nth):
        pos = body.find(anchor, pos + 1)
        if pos < 0:
            break
    if pos < 0:
        # exact anchor text is gone (the anchored statement was edited): fall back to the most similar line, so that the
        # verifier -- not the extractor -- decides about the edited code
        import difflib
        best, best_pos, off = 0.0, -1, 0
        for ln in body.split('\n'):
            r = difflib.SequenceMatcher(None, ln.strip(), anchor.strip()).ratio() if len(ln.strip()) >= len(anchor.strip()) * 0.5 else 0.0
            if anchor.strip()[:12] and ln.strip().startswith(anchor.strip()[:12]):
                r = max(r, 0.6)
            if r > best:
                best, best_pos = r, off + (len(ln) - len(ln.lstrip()))
            off += len(ln) + 1
        if best < 0.55 or nth != 1:
            raise ExtractError('hint anchor not found: %r' % anchor)
        pos = best_pos
    if where == 'before':
        ls = body.rfind('\n', 0, pos) + 1
        return body[:ls] + text + '\n' + body[ls:]
    # after: next ';' at the same depth, else end of line
    depth = 0
    j = pos
    while j < len(m):
        ch = m[j]
        if ch in '([{':
            depth += 1
        elif ch in ')]}':
            depth -= 1
            if depth < 0:
                break
        elif ch == ';' and depth == 0:
            j += 1
            break
        j += 1
    return body[:j] + '\n' + text + '\n' + body[j:]


def emit_fn(asm, fnrec, sig, body, contract, ret_name):
    sig = rsx.strip_attrs(sig).strip()
    if fnrec.emitted_name != fnrec.name:
        sig = re.sub(r'(?<![A-Za-z0-9_])fn\s+' + re.escape(fnrec.name) + r'(?![A-Za-z0-9_])', 'fn ' + fnrec.emitted_name, sig, count=1)
    sig, has_ret = rsx.named_return(sig, ret_name)
    # split a trailing where clause off (Verus wants contracts after where)
    # loops
    for old, new in contract['bodyrep']:
        if old not in body:
            raise ExtractError('%s: body replace anchor lost: %r' % (fnrec.name, old))
        body = body.replace(old, new)
        asm.manual.append('%s: %r => %r' % (fnrec.key, old, new))
    if contract['loops']:
        loops = rsx.loops_in(body)
        # insert from last to first so offsets stay valid
        for n in sorted(contract['loops'].keys(), reverse=True):
            if n >= len(loops):
                raise ExtractError('%s: loop %d not found (have %d)' % (fnrec.name, n, len(loops)))
            kwpos, kw, ob = loops[n]
            L = contract['loops'][n]
            am = re.search(r'/\*@auto invariant (.*?); decreases (.*?)\*/', body[kwpos:ob])
            if am:
                # clauses the counter-loop rewrite brought along are merged with the sidecar's
                L = dict(L)
                L['invariant'] = [am.group(1)] + list(L['invariant'])
                if not L['decreases']:
                    L['decreases'] = am.group(2)
                body = body[:kwpos + am.start()] + body[kwpos + am.end():]
                ob -= am.end() - am.start()
            ins = ''
            if L['inv_except_break']:
                ins += '\n        invariant_except_break\n' + ''.join('            %s,\n' % x for x in L['inv_except_break'])
            if L['invariant']:
                ins += '\n        invariant\n' + ''.join('            %s,\n' % x for x in L['invariant'])
            if L['ensures']:
                ins += '\n        ensures\n' + ''.join('            %s,\n' % x for x in L['ensures'])
            if L['decreases']:
                ins += '\n        decreases %s,\n' % L['decreases']
            bs = ('\n' + '\n'.join(L['bodystart']) + '\n') if L.get('bodystart') else ''
            body = body[:ob] + ins + '    {' + bs + body[ob + 1:]
            if L.get('before'):
                # ghost statements placed just before the loop statement (start of its line)
                ls_ = body.rfind('\n', 0, kwpos) + 1
                if body[ls_:kwpos].strip() == '':
                    body = body[:ls_] + '\n'.join(L['before']) + '\n' + body[ls_:]
                    kwpos += len('\n'.join(L['before'])) + 1
                    ob += len('\n'.join(L['before'])) + 1
                else:
                    raise ExtractError('%s: loop %d is not at the start of a statement line (cannot place ghost snapshot)' % (fnrec.name, n))
            if L['iter'] and kw == 'for':
                # for PAT in EXPR  ->  for PAT in it: EXPR
                seg = body[kwpos:ob]
                mm = re.search(r'(?<![A-Za-z0-9_])in\s', rsx.mask(seg))
                if not mm:
                    raise ExtractError('for without in')
                body = body[:kwpos + mm.end()] + L['iter'] + ': ' + body[kwpos + mm.end():]
    # counter loops without a sidecar entry keep the clauses their rewrite brought along
    body = re.sub(r'/\*@auto invariant (.*?); decreases (.*?)\*/', lambda m_: '\n        invariant %s,\n        decreases %s,\n   ' % (m_.group(1), m_.group(2)), body)
    if contract['okassert']:
        txt = '  proof {\n' + '\n'.join(contract['okassert']) + '\n  }'
        mbody = rsx.mask(body)
        sites = [m_.start() for m_ in re.finditer(r'(?<![A-Za-z0-9_])(return\s+)?Ok\s*\(\s*(Self|MT\d{3}|[A-Z][A-Za-z0-9]*)\s*\{', mbody)]
        if not sites:
            raise ExtractError('%s: no `Ok(<struct> {` exit found for the injected exit assertion' % fnrec.name)
        for pos in reversed(sites):
            ls = body.rfind('\n', 0, pos) + 1
            t_ = txt
            if '$OK' in t_:
                # $OK stands for the value returned at this exit (the argument of `Ok(`), read in spec mode
                op_ = mbody.index('(', pos)
                cp_ = rsx.match_close(mbody, op_)
                ok_ = re.sub(r'(?<![A-Za-z0-9_])([a-z_][a-z0-9_]*)\.is_empty\(\)', r'(\1@.len() == 0)', body[op_ + 1:cp_].strip())
                t_ = t_.replace('$OK', '(' + ok_ + ')')
            body = body[:ls] + t_ + '\n' + body[ls:]
    for h in contract['hints']:
        try:
            body = insert_at_anchor(body, h['where'], h['anchor'], h['nth'], '\n'.join(h['text']))
        except ExtractError as e:
            # the anchored statement is gone: the hint is dropped and the verifier decides on the code that is there; a
            # every failure inside this function is then reported as `undecided` (exit 2), never as a violation
            fnrec.skipped_hints.append(h['anchor'])
            asm.manual.append('%s: proof hint dropped, anchor %r absent' % (fnrec.key, h['anchor']))
    first = len(asm.lines) + 1
    if fnrec.impl:
        asm.add('impl %s {' % fnrec.impl)
    if getattr(fnrec, 'rlimit', None):
        asm.add('#[verifier::rlimit(%s)]' % fnrec.rlimit)
    asm.add(sig)
    if contract['requires']:
        asm.add('    requires')
        for r in contract['requires']:
            asm.add('        %s,' % r)
        fnrec.n_requires = len(contract['requires'])
    if contract['ensures']:
        asm.add('    ensures')
        for cl in contract['ensures']:
            cl.lines = asm.add('        %s,' % cl.text)
            asm.clauses.append(cl)
            fnrec.clauses.append(cl)
            fnrec.props |= cl.props
    if contract['decreases']:
        asm.add('    decreases %s' % contract['decreases'])
    asm.add(body)
    if fnrec.impl:
        asm.add('}')
    fnrec.lines = (first, len(asm.lines))
    asm.fns.append(fnrec)


def expand_includes(path, seen=None):
    """.vu includes are expanded textually first (they may contain directives)"""
    out = []
    if seen is None:
        seen = set()
    for line in open(path, encoding='utf-8').read().split('\n'):
        if line.startswith('//@include ') and line.strip().endswith('.vu'):
            inc = os.path.join(VERIF, 'units', line.split()[1])
            if inc in seen:
                out.append('// ---- include %s (already included)' % line.split()[1])
                continue
            seen.add(inc)
            out.append('// ---- include %s' % line.split()[1])
            out.extend(expand_includes(inc, seen))
            out.append('// ---- end include %s' % line.split()[1])
        else:
            out.append(line)
    return out


STD_TYPES = set('String Option Vec Box Self HashMap HashSet NaiveDate NaiveTime NaiveDateTime Result Some None Ok Err'.split())
_type_index = {}


def type_index(repo):
    if repo in _type_index:
        return _type_index[repo]
    import glob
    idx = {}
    for f in sorted(glob.glob(os.path.join(repo, 'src/fields/*.rs')) + glob.glob(os.path.join(repo, 'src/messages/*.rs')) + glob.glob(os.path.join(repo, 'src/*.rs')) + glob.glob(os.path.join(repo, 'src/headers/*.rs'))):
        src = rsx.Source.get(f)
        for m in re.finditer(r'(?<![A-Za-z0-9_])pub\s+(struct|enum|type)\s+([A-Z][A-Za-z0-9_]*)', src.masked):
            idx.setdefault(m.group(2), (os.path.relpath(f, repo), m.group(1)))
    _type_index[repo] = idx
    return idx


def type_closure(repo, file, name, asm):
    idx = type_index(repo)
    out = []
    seen = getattr(asm, 'types_seen', None)
    if seen is None:
        seen = asm.types_seen = set()
    work = [name]
    while work:
        n = work.pop(0)
        if n in seen or n in STD_TYPES:
            continue
        if n not in idx:
            continue
        seen.add(n)
        f, kind = idx[n]
        src = rsx.Source.get(os.path.join(repo, f))
        text = rsx.strip_attrs(rsx.strip_comments(src.item(kind, n)))
        out.append((text, '%s %s %s' % (f, kind, n)))
        body = text[text.index('{'):] if '{' in text else text
        for t in re.findall(r'(?<![A-Za-z0-9_:])([A-Z][A-Za-z0-9_]*)', rsx.mask(body)):
            if t not in seen and t not in STD_TYPES and t in idx:
                # enum variant names that coincide with type names are harmless (the type is simply emitted too)
                work.append(t)
    return out


def assemble(unit_path, repo=REPO):
    asm = Assembled()
    src_lines = expand_includes(unit_path)
    unit_name = os.path.splitext(os.path.basename(unit_path))[0]
    rw = rsx.Rewriter()
    i = 0
    while i < len(src_lines):
        line = src_lines[i]
        if not line.startswith('//@'):
            asm.add(line)
            i += 1
            continue
        toks = _split_directive(line[3:].strip())
        d = toks[0] if toks else ''
        if d == 'include':
            p = os.path.join(VERIF, 'verus', toks[1])
            asm.includes.append(toks[1])
            asm.add('// ---- include %s' % toks[1])
            asm.add(open(p, encoding='utf-8').read().rstrip('\n'))
            asm.add('// ---- end include %s' % toks[1])
            i += 1
        elif d == 'stub':
            # a declared assumption local to this unit (callee left outside the contracts): copied verbatim, listed in evidence
            reason = line[3:].strip()[len('stub'):].strip()
            j = i + 1
            block = []
            while j < len(src_lines) and not src_lines[j].startswith('//@endstub'):
                block.append(src_lines[j]); j += 1
            if j >= len(src_lines):
                raise ExtractError('//@stub not closed')
            asm.add('// ---- declared-assumption: ' + reason)
            asm.add('\n'.join(block))
            asm.add('// ---- end declared-assumption')
            asm.manual.append('declared assumption (unit stub): ' + reason)
            i = j + 1
        elif d == 'fieldimpls':
            import glob as _g
            impls = set()
            for ff in _g.glob(os.path.join(repo, 'src/fields/*.rs')):
                sf = rsx.Source.get(ff)
                for m_ in re.finditer(r'impl\s+SwiftField\s+for\s+([A-Za-z0-9_]+)', sf.masked):
                    impls.add(m_.group(1))
            names = sorted(n_ for n_ in getattr(asm, 'types_seen', set()) if n_ in impls)
            idx = type_index(repo)
            # type aliases of field enums (e.g. Field53 = Field53SenderCorrespondent) need no impl of their own
            names = [n_ for n_ in names if idx.get(n_, ('', ''))[1] != 'type']
            asm.add('// ---- declared-assumption: field parsers are abstract at message level (their contracts live in the fld_* units)')
            for n_ in names:
                if len(toks) > 1 and toks[1] == 'ser':
                    asm.add('impl SwiftField for %s { uninterp spec fn ser(&self) -> Seq<char>; #[verifier::external_body] fn to_swift_string(&self) -> (r: String) { unimplemented!() } }' % n_)
                    continue
                asm.add('impl SwiftField for %s { uninterp spec fn parse_ok(v: Seq<char>) -> bool; uninterp spec fn parse_val(v: Seq<char>) -> Self; }' % n_)
            asm.add('// ---- end declared-assumption')
            if 'nf' in toks[1:]:
                # C01 linearity: the number of field occurrences a value holds -- 1 for a field type, the sum of the members
                # for the message / sequence structs (read off the struct definitions of the real code)
                asm.add('// ---- field-occurrence count of the parsed values (generated from the struct definitions)')
                for n_ in names:
                    asm.add('impl NF for %s { open spec fn nf(&self) -> nat { 1 } }' % n_)
                for n_ in sorted(getattr(asm, 'types_seen', set())):
                    if n_ in impls or idx.get(n_, ('', ''))[1] != 'struct' or not idx[n_][0].startswith('src/messages/'):
                        continue
                    txt = rsx.strip_attrs(rsx.strip_comments(rsx.Source.get(os.path.join(repo, idx[n_][0])).item('struct', n_)))
                    members = []
                    for mn_, mt_ in re.findall(r'pub\s+([a-z_][a-z0-9_]*)\s*:\s*([^,\n]+)', txt):
                        base_ = re.sub(r'(Option|Vec)\s*<|>|\s', '', mt_)
                        if base_ in impls or (idx.get(base_, ('', ''))[1] in ('struct', 'type', 'enum') and idx[base_][0].startswith(('src/messages/', 'src/fields/'))):
                            members.append(mn_)
                    asm.add('impl NF for %s { open spec fn nf(&self) -> nat { %s } }' % (n_, ' + '.join('self.%s.nf()' % m_ for m_ in members) or '0'))
            asm.manual.append('declared assumption (unit stub): %d field types implement the abstract SwiftField contract' % len(names))
            i += 1
        elif d == 'props':
            asm.unit_props |= set(toks[1:])
            i += 1
        elif d == 'type':
            file, kind, name = toks[1], toks[2], toks[3]
            rest = toks[4:]
            if not hasattr(asm, 'types_seen'):
                asm.types_seen = set()
            asm.types_seen.add(name)
            src = rsx.Source.get(os.path.join(repo, file))
            text = rsx.strip_attrs(rsx.strip_comments(src.item(kind, name)))
            derive = [t for t in rest if t.startswith('derive(')]
            if 'as' in rest:
                new = rest[rest.index('as') + 1]
                text = re.sub(r'(?<![A-Za-z0-9_])' + re.escape(name) + r'(?![A-Za-z0-9_])', new, text, count=1)
            for old, new in [t.split('=>') for t in rest if '=>' in t]:
                text = text.replace(old, new)
            if derive:
                text = '#[%s]\n' % derive[0] + text
            if 'pubfields' in rest:
                # field visibility has no runtime meaning; contracts of pub fns must be able to name the fields
                text = re.sub(r'(?m)^(\s*)(?!pub\b)([a-z_][a-z0-9_]*\s*:)', r'\1pub \2', text)
            asm.types.append('%s %s %s' % (file, kind, name))
            asm.add(text)
            i += 1
        elif d == 'types':
            # transitive closure of the type definitions reachable from one struct/enum (searched in src/fields, src/messages)
            file, name = toks[1], toks[2]
            derive = [t for t in toks[3:] if t.startswith('derive(')]
            for text, origin in type_closure(repo, file, name, asm):
                if derive:
                    text = '#[%s]\n' % derive[0] + text
                asm.types.append(origin)
                asm.add(text)
            i += 1
        elif d == 'constfn':
            # associated `const NAME: &[&str] = &["A", ...];`  ->  exec fn NAME() returning the same literals, with the
            # literal list as its (proved) postcondition; uses `Self::NAME` / `Type::NAME` are rewritten to calls.
            file, name = toks[1], toks[2]
            rest = toks[3:]
            kv = parse_kv(rest)
            scope = rest[rest.index('in') + 1].strip('"') if 'in' in rest else None
            src = rsx.Source.get(os.path.join(repo, file))
            lo, hi = 0, len(src.src)
            if scope:
                _, ob, cb = rsx.find_block(src.src, src.masked, scope)
                lo, hi = ob + 1, cb
            ms = re.search(r'(?<![A-Za-z0-9_])const\s+' + re.escape(name) + r"\s*:\s*&\s*(?:'static\s+)?str\s*=\s*", src.masked[lo:hi])
            if ms:
                # a single string constant: emitted as a function returning the literal the code holds
                lit = re.match(r'\s*("(?:\\.|[^"\\])*")\s*;', src.src[lo + ms.end():])
                if not lit:
                    raise ExtractError('constfn: %s is not a string literal' % name)
                text = ''
                if kv.get('impl'):
                    text += 'impl %s {\n' % kv['impl']
                text += "pub fn %s() -> (r: &'static str)\n    ensures r@ == %s@\n{ %s }\n" % (name, lit.group(1), lit.group(1))
                if kv.get('impl'):
                    text += '}\n'
                asm.add(text.rstrip('\n'))
                asm.types.append('%s const %s (as fn returning its literal)' % (file, name))
                asm.constfns = getattr(asm, 'constfns', []) + [name]
                i += 1
                continue
            m = re.search(r'(?<![A-Za-z0-9_])const\s+' + re.escape(name) + r'\s*:[^=]*=\s*&\s*\[', src.masked[lo:hi])
            if not m:
                raise ExtractError('constfn: const %s not found' % name)
            ob = lo + m.end() - 1
            cb = rsx.match_close(src.masked, ob)
            elems = rsx.split_args(rsx.strip_comments(src.src[ob + 1:cb]))
            if elems and all(re.match(r'^\(\s*"[^"]*"\s*,\s*&\s*\[.*\]\s*,?\s*\)$', e, re.S) for e in elems):
                # table of (code, &[codes]) pairs: emitted as Vec<(&str, Vec<&str>)>; the EXPECTED content comes from the
                # unit (oracle lines `expect "X": "A", "B"` following the directive), the actual content from the code
                pairs = []
                for e in elems:
                    mm = re.match(r'^\(\s*("[^"]*")\s*,\s*&\s*\[(.*)\]\s*,?\s*\)$', e, re.S)
                    pairs.append((mm.group(1), rsx.split_args(mm.group(2))))
                exp = []
                j = i + 1
                while j < len(src_lines) and src_lines[j].startswith('//@expect '):
                    em = re.match(r'//@expect\s+("[^"]*")\s*:\s*(.*)$', src_lines[j])
                    exp.append((em.group(1), [x.strip() for x in em.group(2).split(',') if x.strip()]))
                    j += 1
                ens = ['r@.len() == %d' % len(exp)]
                for k, (c, fs) in enumerate(exp):
                    ens.append('r@[%d].0@ == %s@' % (k, c))
                    ens.append('r@[%d].1@.len() == %d' % (k, len(fs)))
                    for q, fcode in enumerate(fs):
                        ens.append('r@[%d].1@[%d]@ == %s@' % (k, q, fcode))
                fr = FnRec(file, name, scope, name, kv.get('impl'))
                fr.impl = kv.get('impl')
                first = len(asm.lines) + 1
                text = ''
                if kv.get('impl'):
                    text += 'impl %s {\n' % kv['impl']
                text += "pub fn %s() -> (r: Vec<(&'static str, Vec<&'static str>)>)\n    ensures\n" % name
                asm.add(text.rstrip('\n'))
                for en in ens:
                    cl = Clause('%s/table.%s' % (name, re.sub(r'[^A-Za-z0-9_.]', '_', en)[:60]), set(kv.get('props', 'C04').split(',')), fr, en)
                    cl.lines = asm.add('        %s,' % en)
                    asm.clauses.append(cl); fr.clauses.append(cl); fr.props |= cl.props
                body = '{\n    vec![%s]\n}' % ', '.join('(%s, vec![%s])' % (c, ', '.join(fs)) for c, fs in pairs)
                asm.add(body)
                if kv.get('impl'):
                    asm.add('}')
                fr.lines = (first, len(asm.lines))
                asm.fns.append(fr)
                asm.types.append('%s const table %s (as fn, %d rows)' % (file, name, len(pairs)))
                asm.constfns = getattr(asm, 'constfns', []) + [name]
                i = j
                continue
            if not all(re.match(r'^"(\\.|[^"\\])*"$', e) for e in elems):
                raise ExtractError('constfn: %s has non-literal elements' % name)
            exp_elems = None
            j = i + 1
            while j < len(src_lines) and src_lines[j].startswith('//@expect '):
                exp_elems = (exp_elems or []) + [x.strip() for x in src_lines[j][len('//@expect '):].split(',') if x.strip()]
                j += 1
            pinned = exp_elems is not None
            ref = exp_elems if pinned else elems
            ens = ['r@.len() == %d' % len(ref)] + ['r@[%d]@ == %s@' % (k, e) for k, e in enumerate(ref)]
            if pinned:
                # expected content given by the unit (oracle): each line is a named obligation
                fr = FnRec(file, name, scope, name, kv.get('impl'))
                fr.impl = kv.get('impl')
                first = len(asm.lines) + 1
                if kv.get('impl'):
                    asm.add('impl %s {' % kv['impl'])
                asm.add("pub fn %s() -> (r: Vec<&'static str>)\n    ensures" % name)
                for en in ens:
                    cl = Clause('%s/table.%s' % (name, re.sub(r'[^A-Za-z0-9_.]', '_', en)[:60]), set(kv.get('props', 'C04').split(',')), fr, en)
                    cl.lines = asm.add('        %s,' % en)
                    asm.clauses.append(cl); fr.clauses.append(cl); fr.props |= cl.props
                asm.add('{\n    vec![%s]\n}' % ', '.join(elems))
                if kv.get('impl'):
                    asm.add('}')
                fr.lines = (first, len(asm.lines))
                asm.fns.append(fr)
                asm.types.append('%s const %s (as fn, pinned to %d expected literals)' % (file, name, len(ref)))
                asm.constfns = getattr(asm, 'constfns', []) + [name]
                i = j
                continue
            text = ''
            if kv.get('impl'):
                text += 'impl %s {\n' % kv['impl']
            text += "pub fn %s() -> (r: Vec<&'static str>)\n    ensures\n" % name + ''.join('        %s,\n' % e for e in ens)
            text += '{\n    vec![%s]\n}\n' % ', '.join(elems)
            if kv.get('impl'):
                text += '}\n'
            asm.add(text)
            asm.types.append('%s const %s (as fn, %d literals)' % (file, name, len(elems)))
            asm.constfns = getattr(asm, 'constfns', []) + [name]
            i += 1
        elif d == 'const':
            file, name = toks[1], toks[2]
            ckv = parse_kv(toks[3:])
            src = rsx.Source.get(os.path.join(repo, file))
            if ckv.get('impl'):
                # associated scalar const: `const NAME: T = expr;` inside an impl block
                m_ = re.search(r'(?<![A-Za-z0-9_])(pub\s+)?const\s+' + re.escape(name) + r'\s*:[^;]*;', src.masked)
                if not m_:
                    raise ExtractError('assoc const %s not found' % name)
                text = 'impl %s { pub %s }' % (ckv['impl'], re.sub(r'^pub\s+', '', src.src[m_.start():m_.end()]))
                asm.types.append('%s assoc const %s' % (file, name))
                asm.add(rsx.strip_comments(text))
                i += 1
                continue
            try:
                text = src.item('const', name)
            except ExtractError:
                text = src.item('static', name)
            asm.types.append('%s const %s' % (file, name))
            text = rsx.strip_attrs(rsx.strip_comments(text))
            text = re.sub(r':\s*&\s*str\b', ": &'static str", text)
            asm.add(text)
            i += 1
        elif d == 'stmtfn':
            # an expression statement inside a function that cannot be ingested as a whole (plugin glue): the expression text
            # `<start> EXPR ;` found after the anchor is wrapped, verbatim, in a synthesized function with the given signature.
            file = toks[1]
            kv = {}
            for t in toks[2:]:
                if '=' in t:
                    k, v = t.split('=', 1)
                    kv[k] = v.strip('"')
            j = i + 1
            block = []
            while j < len(src_lines) and not src_lines[j].startswith('//@end'):
                block.append(src_lines[j]); j += 1
            src = rsx.Source.get(os.path.join(repo, file))
            a = src.src.find(kv['after'])
            if a < 0:
                raise ExtractError('stmtfn: anchor lost: %s' % kv['after'])
            st = src.src.find(kv['start'], a)
            if st < 0:
                raise ExtractError('stmtfn: start lost: %s' % kv['start'])
            e0 = st + len(kv['start'])
            depth, e1 = 0, e0
            if 'until' in kv:
                # a run of statements: everything up to the given text (which must follow), verbatim
                e1 = src.src.find(kv['until'], e0)
                if e1 < 0:
                    raise ExtractError('stmtfn: end lost: %s' % kv['until'])
            while 'until' not in kv and e1 < len(src.masked):
                ch = src.masked[e1]
                if ch in '([{':
                    depth += 1
                elif ch in ')]}':
                    depth -= 1
                    if depth < 0 and kv.get('end') == 'block':
                        # `end=block`: every statement up to the brace that closes the enclosing block (tail expression included)
                        break
                elif ch == ';' and depth == 0:
                    break
                e1 += 1
            expr = rsx.strip_comments(src.src[e0:e1])
            sig = kv['sig']
            name = re.search(r'fn\s+(\w+)', sig).group(1)
            fnrec = FnRec(file, name, 'statement after ' + kv['after'][:40], name, kv.get('impl'))
            fnrec.impl = kv.get('impl')
            if 'props' in kv:
                fnrec.props |= set(kv['props'].split(','))
            contract = parse_contract(block, fnrec, unit_name)
            sopts = {}
            for o_ in kv.get('opt', '').split(','):
                if o_:
                    sopts[o_] = True
            if contract['fmtcat']:
                sopts['fmtcat'] = contract['fmtcat']
            expr = expr + kv.get('tail', '').replace('\\n', '\n')
            if sopts.get('absfmt'):
                expr, na_ = rsx.abs_format_args(expr)
                asm.manual.append('%s: format! argument abstraction (%d computed arguments replaced by vx::any_arg(); see rsx.abs_format_args)' % (fnrec.key, na_))
            for old_, new_ in contract['bodyrep']:
                if old_ in expr:
                    expr = expr.replace(old_, new_)
                    asm.manual.append('%s: %r => %r' % (fnrec.key, old_, new_))
                else:
                    asm.manual.append('%s: rewrite %r not applicable (text absent)' % (fnrec.key, old_))
            contract['bodyrep'] = []
            body = '{\n' + rw.apply_all(expr, sopts) + '\n}'
            emit_fn(asm, fnrec, 'pub ' + sig, body, contract, kv.get('ret', 'r'))
            asm.manual.append('statement extracted as function: %s: `%s...` after `%s`' % (file, kv['start'], kv['after'][:50]))
            i = j + 1
        elif d == 'fn':
            file, name = toks[1], toks[2]
            rest = toks[3:]
            scope = None
            if 'in' in rest:
                scope = rest[rest.index('in') + 1].strip('"')
            kv = parse_kv(rest)
            j = i + 1
            block = []
            while j < len(src_lines) and not src_lines[j].startswith('//@end'):
                if src_lines[j].startswith('//@'):
                    raise ExtractError('%s: //@fn %s not closed by //@end' % (unit_path, name))
                block.append(src_lines[j])
                j += 1
            if j >= len(src_lines):
                raise ExtractError('%s: //@fn %s not closed by //@end' % (unit_path, name))
            src = rsx.Source.get(os.path.join(repo, file))
            sig, body = src.fn(name, scope)
            fnrec = FnRec(file, name, scope, kv.get('as', name), kv.get('mod'))
            fnrec.impl = kv.get('impl')
            if fnrec.impl:
                fnrec.impl = fnrec.impl.strip('"')
                fnrec.module = re.sub(r'<.*?>', '', fnrec.impl.replace(' ', '')) or fnrec.impl
                if fnrec.impl.startswith('<'):
                    # generic impl given as "<T:Bound>Type<T>"
                    gm = re.match(r'(<[^>]*>)(.*)$', fnrec.impl)
                    fnrec.impl = gm.group(1) + ' ' + gm.group(2)
                    fnrec.module = re.sub(r'<.*?>', '', gm.group(2))
            if 'props' in kv:
                fnrec.props |= set(kv['props'].split(','))
            fnrec.rlimit = kv.get('rlimit')
            contract = parse_contract(block, fnrec, unit_name)
            body = rsx.strip_comments(body)
            opts = dict(noslice=[x for x in kv.get('noslice', '').split(',') if x],
                        norule=[x for x in kv.get('norule', '').split(',') if x])
            for o in kv.get('opt', '').split(','):
                if o:
                    opts[o] = True
            if contract['fmtcat']:
                opts['fmtcat'] = contract['fmtcat']
            sig = rsx.strip_comments(sig)
            if kv.get('slice'):
                var, fld = kv['slice'].split('.')
                body, nd = rsx.slice_body(body, var, fld)
                asm.manual.append('%s: program slice w.r.t. %s (%d top-level statements that only touch other fields dropped; see rsx.slice_body for the rule)' % (fnrec.key, kv['slice'], nd))
                rw.note('program-slice-by-field', 1)
            if kv.get('sliceacc'):
                acc, keep = kv['sliceacc'].strip('"').split(':', 1)
                body, nd = rsx.slice_acc(body, acc, keep)
                asm.manual.append('%s: append-only accumulator slice w.r.t. %s (%d appending statements dropped; see rsx.slice_acc)' % (fnrec.key, keep, nd))
                rw.note('program-slice-append-only', 1)
            if opts.get('absfmt'):
                body, na = rsx.abs_format_args(body)
                asm.manual.append('%s: format! argument abstraction (%d computed arguments replaced by vx::any_arg(); see rsx.abs_format_args)' % (fnrec.key, na))
                rw.note('abstract-format-args', 1)
            if opts.get('havoc'):
                body = rw.let_chains(body)
                body, nh, nd = rsx.havoc_guards(body)
                asm.manual.append('%s: guard abstraction (%d non-`let` conditions replaced by vx::havoc(), %d dead top-level statements dropped; see rsx.havoc_guards)' % (fnrec.key, nh, nd))
                rw.note('havoc-guards', 1)
            for old, new in contract['bodyrep']:
                if old not in body:
                    # same text with different line breaks / indentation?
                    toks_ = old.split()
                    pat_ = r'\s*'.join(re.escape(t_) for t_ in toks_)
                    if toks_ and re.search(pat_, body):
                        body = re.sub(pat_, lambda m_: new, body)
                        asm.manual.append('%s: %r => %r (white space insensitive)' % (fnrec.key, old, new))
                        continue
                    # the construct this rewrite was written for is gone: nothing to rewrite; the verifier decides on what is there
                    asm.manual.append('%s: rewrite %r not applicable (text absent)' % (fnrec.key, old))
                    continue
                body = body.replace(old, new)
                asm.manual.append('%s: %r => %r' % (fnrec.key, old, new))
            contract['bodyrep'] = []
            body = rw.apply_all(body, opts)
            for cname in getattr(asm, 'constfns', []):
                body, k = re.subn(r'(?<![A-Za-z0-9_])((?:Self|[A-Z][A-Za-z0-9_]*)::' + re.escape(cname) + r')(?![A-Za-z0-9_(])', r'\1()', body)
                rw.note('assoc-const-str-slice->fn call', k)
            # single-file unit: items of the repository's modules live at the unit's root
            pref = re.compile(r'(?<![A-Za-z0-9_:])crate::(?:errors|parser::utils|parser|fields::swift_utils|fields::field_utils|fields|messages|headers|traits|swift_message|parsed_message|swift_error_codes)::')
            n_pref = len(pref.findall(sig)) + len(pref.findall(body))
            if n_pref:
                sig = pref.sub('', sig)
                body = pref.sub('', body)
                rw.note('crate::<module>:: path prefix dropped (single-file unit)', n_pref)
            sup = re.compile(r'(?<![A-Za-z0-9_:])(?:super::)+(?:(?:swift_utils|field_utils|utils|errors|traits)::)?')
            n_sup = len(sup.findall(body))
            if n_sup:
                body = sup.sub('', body)
                rw.note('super::[module::] path prefix dropped (single-file unit)', n_sup)
            n_cr = len(re.findall(r'crate::Result<', sig + body))
            if n_cr:
                sig = sig.replace('crate::Result<', 'crate::cr::Result<')
                body = body.replace('crate::Result<', 'crate::cr::Result<')
                rw.note('crate::Result->crate::cr::Result (alias module)', n_cr)
            if kv.get('sigrep'):
                a_, b_ = kv['sigrep'].strip('"').split('=>')
                if a_ in sig:
                    sig = sig.replace(a_, b_)
                    asm.manual.append('%s: signature %r => %r' % (fnrec.key, a_, b_))
            if kv.get('vis'):
                sig = re.sub(r'^(pub(\s*\([^)]*\))?\s+)?', kv['vis'] + ' ', sig.strip(), count=1)
            emit_fn(asm, fnrec, sig, body, contract, kv.get('ret', 'r'))
            i = j + 1
        else:
            raise ExtractError('unknown directive: ' + line)
    asm.rewrites = dict(rw.fired)
    return asm


def main():
    unit = sys.argv[1]
    out = sys.argv[2]
    asm = assemble(unit)
    open(out, 'w', encoding='utf-8').write(asm.text())
    meta = dict(fns=[dict(key=f.key, lines=f.lines, props=sorted(f.props)) for f in asm.fns],
                clauses=[dict(id=c.cid, props=sorted(c.props), lines=c.lines) for c in asm.clauses],
                rewrites=asm.rewrites, types=asm.types)
    print(json.dumps(meta, indent=1))


if __name__ == '__main__':
    try:
        main()
    except ExtractError as e:
        print('EXTRACT-ERROR: %s' % e, file=sys.stderr)
        sys.exit(2)
