#!/usr/bin/env python3
"""runner -- assemble a unit from /repo's working tree, run Verus on it, map every diagnostic back to
(repo function, clause id, properties)."""
import os
import re
import sys
import json
import time
import hashlib
import subprocess

sys.path.insert(0, os.path.dirname(os.path.abspath(__file__)))
import assemble as asmmod
from rsx import ExtractError

VERIF = asmmod.VERIF
BUILD = os.environ.get('VERIF_BUILD', os.path.join(VERIF, 'build'))

CANARY = '''
verus! {
// vacuity guard: with the whole trusted prelude and every axiom in scope this MUST be rejected
proof fn canary__must_fail() ensures false {}
}
'''

SAFETY_PATTERNS = [
    'possible arithmetic underflow/overflow', 'possible division by zero', 'possible bit shift underflow/overflow',
    'precondition not satisfied', 'precondition not met', 'decreases not satisfied', 'loop must have a decreases', 'unreachable', 'panic',
    'index out of bounds', 'unwrap',
]


class Failure:
    def __init__(self, kind, msg, fn, clause, props, line, span_text, rendered, safety):
        self.kind, self.msg, self.fn, self.clause, self.props = kind, msg, fn, clause, props
        self.line, self.span_text, self.rendered, self.safety = line, span_text, rendered, safety

    @property
    def ident(self):
        """stable identity of the failed obligation"""
        if self.clause:
            return self.clause
        st = re.sub(r'\s+', ' ', self.span_text or '').strip()
        return '%s/%s:%s' % (self.fn or '?', self.kind, st[:120])

    def to_json(self):
        return dict(obligation=self.ident, kind=self.kind, message=self.msg, function=self.fn, props=sorted(self.props or []),
                    line=self.line, span=self.span_text, verifier_output=self.rendered)


class UnitResult:
    def __init__(self, unit):
        self.unit = unit
        self.status = 'ok'       # ok | fail | undecided | error
        self.failures = []
        self.errors = []         # machinery errors (strings)
        self.verified = 0
        self.n_errors = 0
        self.fn_ok = {}
        self.smt_ms = 0
        self.total_ms = 0
        self.asm = None
        self.canary_rejected = False
        self.undecided = []
        self.cmd = ''
        self.path = ''


def classify(msg):
    m = msg.lower()
    if 'postcondition not satisfied' in m:
        return 'postcondition'
    if 'precondition not satisfied' in m or 'precondition not met' in m:
        return 'precondition'
    if 'assertion failed' in m:
        return 'assert'
    if 'invariant not satisfied' in m:
        return 'invariant'
    if 'arithmetic underflow/overflow' in m or 'division by zero' in m or 'bit shift' in m:
        return 'overflow'
    if 'decreases not satisfied' in m or 'must have a decreases' in m:
        return 'termination'
    if 'rlimit' in m or 'resource limit' in m or 'timed out' in m:
        return 'rlimit'
    if 'unreachable' in m or 'panic' in m:
        return 'panic'
    return 'other'


def run_unit(unit, rlimit=30, seed=0, keep=True, extra_args=()):
    res = UnitResult(unit)
    os.makedirs(BUILD, exist_ok=True)
    unit_path = os.path.join(VERIF, 'units', unit + '.vu')
    try:
        asm = asmmod.assemble(unit_path)
    except ExtractError as e:
        res.status = 'error'
        res.errors.append('extract: %s' % e)
        return res
    except Exception as e:  # noqa
        res.status = 'error'
        res.errors.append('assemble crashed: %r' % e)
        return res
    res.asm = asm
    text = asm.text()
    canary_line = len(asm.lines) + 1
    text += CANARY
    out = os.path.join(BUILD, unit.replace('/', '_') + '.rs')
    res.path = out
    open(out, 'w', encoding='utf-8').write(text)
    cmd = ['verus', out, '--error-format=json', '--output-json', '--time', '--multiple-errors', '40',
           '--rlimit', str(rlimit), '--edition', '2024'] + list(extra_args)
    if seed:
        cmd += ['-V', 'smt.random_seed=%d' % (seed % 100000)] if False else []
    res.cmd = ' '.join(cmd)
    t0 = time.time()
    wd = os.path.join(BUILD, '.wd_' + unit.replace('/', '_'))
    os.makedirs(wd, exist_ok=True)
    p = subprocess.run(cmd, capture_output=True, text=True, cwd=wd)
    res.total_ms = int((time.time() - t0) * 1000)
    # stdout: json summary
    try:
        js = json.loads(p.stdout)
    except Exception:
        js = None
    diags = []
    for line in p.stderr.split('\n'):
        line = line.strip()
        if line.startswith('{'):
            try:
                diags.append(json.loads(line))
            except Exception:
                pass
    if js is None:
        res.status = 'error'
        res.errors.append('verus produced no JSON summary; stderr head: ' + p.stderr[:2000])
    else:
        vr = js.get('verification-results', {})
        res.verified = vr.get('verified', 0)
        res.n_errors = vr.get('errors', 0)
        if vr.get('encountered-vir-error'):
            res.status = 'error'
        try:
            smt = js['times-ms']['smt']
            res.smt_ms = smt.get('total', 0)
            for mod in smt.get('smt-run-module-times', []):
                for fb in mod.get('function-breakdown', []):
                    res.fn_ok[fb['function']] = fb['success']
        except Exception:
            pass
    # map diagnostics
    fn_by_line = []
    for f in asm.fns:
        fn_by_line.append((f.lines[0], f.lines[1], f))
    clause_by_line = []
    for c in asm.clauses:
        clause_by_line.append((c.lines[0], c.lines[1], c))

    def find_fn(line):
        for a, b, f in fn_by_line:
            if a <= line <= b:
                return f
        return None

    def find_clause(line):
        for a, b, c in clause_by_line:
            if a <= line <= b:
                return c
        return None

    for d in diags:
        if d.get('level') != 'error':
            continue
        msg = d.get('message', '')
        if msg.startswith('aborting due to'):
            continue
        spans = [s for s in d.get('spans', []) if s.get('file_name', '').endswith(os.path.basename(out))]
        prim = [s for s in spans if s.get('is_primary')]
        kind = classify(msg)
        rendered = d.get('rendered', '')
        # canary
        if any(s['line_start'] >= canary_line for s in spans):
            if kind == 'postcondition':
                res.canary_rejected = True
            else:
                res.errors.append('canary: unexpected diagnostic: ' + msg)
            continue
        if kind == 'other':
            res.status = 'error'
            res.errors.append('verus/rustc error: %s\n%s' % (msg, rendered[:1500]))
            continue
        line = prim[0]['line_start'] if prim else (spans[0]['line_start'] if spans else 0)
        span_text = ''
        if prim:
            span_text = ' '.join(t['text'][t['highlight_start'] - 1:t['highlight_end'] - 1] for t in prim[0].get('text', []))
        clause = None
        fn = None
        if kind == 'postcondition':
            for s in spans:
                c = find_clause(s['line_start'])
                if c is not None:
                    clause = c
            for s in spans:
                f = find_fn(s['line_start'])
                if f is not None:
                    fn = f
            if clause is not None:
                fn = clause.fn
        else:
            for s in prim + spans:
                f = find_fn(s['line_start'])
                if f is not None:
                    fn = f
                    break
        if kind == 'rlimit':
            res.undecided.append('%s: %s' % (fn.key if fn else '?', msg))
            continue
        if fn is None and clause is None:
            # failure inside hand-written lemma / spec text of the unit: machinery problem
            res.status = 'error'
            res.errors.append('failure outside extracted functions (lemma library / unit text): %s\n%s' % (msg, rendered[:1500]))
            continue
        if fn is not None and getattr(fn, 'skipped_hints', None):
            # a proof step of this function lost its anchor (the anchored statement was edited away): whatever fails in the
            # function afterwards may be the missing step, not the code -- undecided (exit 2), never an alarm
            res.undecided.append('%s: %s after a proof hint was dropped (anchor absent): %s' % (fn.key, kind, msg))
            continue
        safety = kind in ('overflow', 'termination', 'panic') or (kind == 'precondition')
        props = set()
        if clause is not None:
            props = set(clause.props)
        else:
            props = set(fn.props)
        res.failures.append(Failure(kind, msg, fn.key if fn else None, clause.cid if clause else None, props, line,
                                    span_text, rendered, safety))
    if res.status != 'error':
        if not res.canary_rejected:
            res.status = 'error'
            res.errors.append('vacuity guard: canary `ensures false` was NOT rejected -> trusted prelude inconsistent or verification did not run')
        elif res.undecided:
            res.status = 'undecided'
        elif res.failures:
            res.status = 'fail'
        # every extracted function must have been checked
        if js is not None and res.status in ('ok', 'fail'):
            checked = ' '.join(res.fn_ok.keys())
            for f in asm.fns:
                if not re.search(r'(?<![A-Za-z0-9_])' + re.escape(f.emitted_name) + r'(?![A-Za-z0-9_])', checked):
                    # functions with no SMT query at all (trivially true) do not appear; accept only if no clauses
                    if f.clauses:
                        res.errors.append('function %s has clauses but was not checked by Verus' % f.key)
                        res.status = 'error'
    return res


if __name__ == '__main__':
    r = run_unit(sys.argv[1])
    print('status', r.status, 'verified', r.verified, 'errors', r.n_errors, 'smt_ms', r.smt_ms, 'wall_ms', r.total_ms)
    for e in r.errors:
        print('ERROR', e)
    for u in r.undecided:
        print('UNDECIDED', u)
    for f in r.failures:
        print('FAIL', f.ident, sorted(f.props), 'line', f.line)
        if '-v' in sys.argv:
            print(f.rendered)
