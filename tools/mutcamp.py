#!/usr/bin/env python3
"""mutcamp -- a mutation campaign used while building the contracts (NOT part of any registered check): generic
operators (relational flips, literal +-1, && <-> ||, dropped negation) are applied one at a time to the non-test code of
the given source files in a scratch copy of /repo/src; the units that extract from the file are run on the copy and the
mutants that no unit notices are listed (equivalent mutants and blind spots of the contracts look the same here).
usage: mutcamp.py <out.json> <workers> <file under src> [...]"""
import os, re, sys, json, glob, shutil, subprocess, concurrent.futures
VERIF = os.path.dirname(os.path.dirname(os.path.abspath(__file__)))
sys.path.insert(0, os.path.join(VERIF, 'tools'))
import rsx

OPS = [
    (r'(?<![<>=!])>=(?!=)', '>'), (r'(?<![<>=!-])>(?![>=])', '>='), (r'(?<![<>=!])<=(?!=)', '<'), (r'(?<![<>=!])<(?![<=])', '<='),
    (r'==', '!='), (r'!=', '=='), (r'&&', '||'), (r'\|\|', '&&'),
]


def units_for_file(rel):
    res = []
    for p in sorted(glob.glob(os.path.join(VERIF, 'units', '*.vu'))):
        name = os.path.splitext(os.path.basename(p))[0]
        if name.startswith(('total_', 'tags_', 'variants_')) or (name.startswith(('mtser', 'msgparse_')) and not rel.startswith('messages/')):
            continue
        txt = open(p).read()
        incs = re.findall(r'^//@include (inc/\S+)', txt, re.M)
        for inc in incs:
            ip = os.path.join(VERIF, 'units', inc)
            if os.path.exists(ip):
                txt += open(ip).read()
        if re.search(r'^//@(fn|constfn|types?)\s+src/%s\b' % re.escape(rel), txt, re.M):
            res.append(name)
    return res


def sites(src):
    cut = src.find('#[cfg(test)]')
    body = src if cut < 0 else src[:cut]
    m = rsx.mask(rsx.strip_comments(body)) if False else rsx.mask(body)
    out = []
    for pat, rep in OPS:
        for mm in re.finditer(pat, m):
            ln = body.count('\n', 0, mm.start()) + 1
            line = body.split('\n')[ln - 1]
            if line.strip().startswith('//') or 'message:' in line or 'format!' in line and mm.group(0) in ('<', '>'):
                continue
            # skip generics / arrows / shifts / attribute lines
            ctx = m[max(0, mm.start() - 1):mm.end() + 1]
            if '->' in ctx or '=>' in ctx or '::<' in m[max(0, mm.start() - 2):mm.end()] or line.strip().startswith('#['):
                continue
            if mm.group(0) in ('<', '>') and not re.search(r'\.len\(\)|[0-9]\s*$|^\s*[0-9]', m[max(0, mm.start() - 12):mm.end() + 6]):
                continue
            out.append((mm.start(), mm.end(), rep, ln))
    for mm in re.finditer(r'(?<![A-Za-z0-9_.])([0-9]+)(?![A-Za-z0-9_.])', m):
        ln = body.count('\n', 0, mm.start()) + 1
        line = body.split('\n')[ln - 1]
        if line.strip().startswith(('#[', '//')):
            continue
        n = int(mm.group(1))
        out.append((mm.start(), mm.end(), str(n + 1), ln))
        cmp_ctx = re.search(r'[<>=]=?\s*$|len\(\)', m[max(0, mm.start() - 14):mm.start()]) or re.search(r'^\s*[<>=]', m[mm.end():mm.end() + 3])
        if n > 0 and cmp_ctx:
            out.append((mm.start(), mm.end(), str(n - 1), ln))
    for mm in re.finditer(r'if\s+!', m):
        ln = body.count('\n', 0, mm.start()) + 1
        out.append((mm.end() - 1, mm.end(), '', ln))
    return sorted(set(out))


def run_one(job):
    k, rel, a, b, rep, ln, units, work = job
    root = os.path.join(work, 'w%d' % (k % 64))
    os.makedirs(root, exist_ok=True)
    srcdir = os.path.join(root, 'src')
    if not os.path.exists(srcdir):
        shutil.copytree('/repo/src', srcdir)
    orig = open(os.path.join('/repo/src', rel)).read()
    mut = orig[:a] + rep + orig[b:]
    open(os.path.join(srcdir, rel), 'w').write(mut)
    res = {}
    env = dict(os.environ, VERIF_REPO=root, VERIF_BUILD=os.path.join(root, 'build'))
    try:
        for u in units:
            p = subprocess.run([sys.executable, os.path.join(VERIF, 'tools', 'runner.py'), u], capture_output=True, text=True, env=env, timeout=600)
            mm = re.search(r'^status (\w+)', p.stdout, re.M)
            res[u] = mm.group(1) if mm else 'error'
            if res[u] == 'fail':
                break
    except subprocess.TimeoutExpired:
        res['timeout'] = 'undecided'
    finally:
        open(os.path.join(srcdir, rel), 'w').write(orig)
    return dict(file=rel, line=ln, old=orig[a:b], new=rep, text=orig.split('\n')[ln - 1].strip()[:140], result=res)


def main():
    out, workers, files = sys.argv[1], int(sys.argv[2]), sys.argv[3:]
    work = '/tmp/mutcamp'
    jobs = []
    for rel in files:
        src = open(os.path.join('/repo/src', rel)).read()
        units = units_for_file(rel)
        if not units:
            print('no unit extracts from', rel); continue
        for (a, b, rep, ln) in sites(src):
            jobs.append((len(jobs), rel, a, b, rep, ln, units, work))
    print('mutants:', len(jobs))
    # one worker = one scratch copy: jobs are distributed so that a copy is used by one process at a time
    results = []
    buckets = {}
    for j in jobs:
        buckets.setdefault(j[0] % workers, []).append(j)

    def run_bucket(bk):
        return [run_one((j[0] % workers,) + j[1:]) for j in bk]
    with concurrent.futures.ThreadPoolExecutor(max_workers=workers) as ex:
        for rs in ex.map(run_bucket, buckets.values()):
            results.extend(rs)
    json.dump(results, open(out, 'w'), indent=1)
    surv = [r for r in results if 'fail' not in r['result'].values()]
    print('detected', len(results) - len(surv), 'not detected', len(surv))
    for r in surv:
        print('%s:%d  %r -> %r   %s   %s' % (r['file'], r['line'], r['old'], r['new'], r['result'], r['text']))
    shutil.rmtree(work, ignore_errors=True)


if __name__ == '__main__':
    main()
