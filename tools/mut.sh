#!/bin/bash
# usage: mut.sh <file under src> <old> <new> <unit>   -- apply a textual mutation to a scratch copy and run one unit on it
rm -rf /tmp/scr/src && mkdir -p /tmp/scr && cp -r /repo/src /tmp/scr/src && python3 - "$1" "$2" "$3" <<'PY'
import sys
f,old,new=sys.argv[1:4]
p='/tmp/scr/src/'+f
s=open(p).read()
assert s.count(old)>=1, 'pattern not found'
s=s.replace(old,new,1)
open(p,'w').write(s)
PY
VERIF_REPO=/tmp/scr python3 /verif/tools/runner.py $4 2>/dev/null | head -${5:-4}
