#!/usr/bin/env python3
"""audit of the modular chain: every function whose contract is *restated* as a callee contract (//@stub ... restated from
unit U ...) must be under contract in unit U (a //@fn directive for it, in U or in a file U includes).  Prints the
functions for which that is not the case.  A restated contract without ensures clauses claims nothing and is skipped."""
import os, re, sys, glob
VERIF = os.path.dirname(os.path.dirname(os.path.abspath(__file__)))


def expand(path, seen=None):
    seen = seen or set()
    if path in seen or not os.path.exists(path):
        return ''
    seen.add(path)
    txt = open(path, encoding='utf-8').read()
    out = txt
    for m in re.finditer(r'^//@include (\S+\.vu)', txt, re.M):
        out += expand(os.path.join(VERIF, 'units', m.group(1)), seen)
    return out


def main():
    bad = []
    files = glob.glob(os.path.join(VERIF, 'units', '*.vu')) + glob.glob(os.path.join(VERIF, 'units', 'inc', '*.vu'))
    for p in sorted(files):
        txt = open(p, encoding='utf-8').read()
        for m in re.finditer(r'^//@stub[^\n]*restated from (?:unit |inc/)?([A-Za-z0-9_./]+)[^\n]*\n(.*?)^//@endstub', txt, re.M | re.S):
            unit = m.group(1).replace('.vu', '').replace('inc/', '')
            cand = [os.path.join(VERIF, 'units', unit + '.vu'), os.path.join(VERIF, 'units', 'inc', unit + '.vu')]
            utxt = ''.join(expand(c) for c in cand)
            body = m.group(2)
            for fm in re.finditer(r'fn\s+([a-z_][a-z0-9_]*)\s*(?:<[^>]*>)?\s*\(([^{;]*?)\{', body, re.S):
                name, sig = fm.group(1), fm.group(2)
                if 'ensures' not in sig:
                    continue
                if not re.search(r'^//@(?:fn|stmtfn)\s+\S+\s+%s\b' % re.escape(name), utxt, re.M) and not re.search(r'as=%s\b' % re.escape(name), utxt):
                    bad.append('%s: contract of `%s` is restated from %s but %s has no //@fn for it' % (os.path.relpath(p, VERIF), name, unit, unit))
    for b in bad:
        print(b)
    return 1 if bad else 0


if __name__ == '__main__':
    sys.exit(main())
