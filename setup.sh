#!/bin/sh
# offline setup: build the replay binary (used only to confirm witnesses / known findings against the real crate)
set -e
cd "$(dirname "$0")"
mkdir -p build evidence replays
cp /repo/Cargo.lock replay/Cargo.lock 2>/dev/null || true
CARGO_NET_OFFLINE=true cargo build --offline --release --manifest-path replay/Cargo.toml --target-dir replay/target >build/replay_build.log 2>&1 || { echo "replay build failed (witness decoration disabled)"; tail -5 build/replay_build.log; }
exit 0
