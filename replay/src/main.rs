//! replay -- run a witness against the REAL crate in /repo (public API) and print what happened.
//! usage: replay <entry> <input>      (input is taken literally; \n, \r, \\ and \u{..} escapes are decoded)
use std::panic;
use swift_mt_message::fields::swift_utils as su;
use swift_mt_message::fields::*;
use swift_mt_message::traits::SwiftField;
use swift_mt_message::{ApplicationHeader, BasicHeader, SwiftParser, Trailer, UserHeader};

fn field(tag: &str, input: &str) -> String {
    macro_rules! f { ($t:ty) => {{ match <$t>::parse(input) { Ok(v) => format!("OK {:?} => {:?}", v, v.to_swift_string()), Err(e) => format!("ERR {:?}", e) } }}; }
    match tag {
        "11R" => f!(Field11R), "11S" => f!(Field11S), "12" => f!(Field12), "13C" => f!(Field13C), "13D" => f!(Field13D),
        "19" => f!(Field19), "20" => f!(Field20), "21" => f!(Field21NoOption), "23B" => f!(Field23B), "23E" => f!(Field23E),
        "26T" => f!(Field26T), "28" => f!(Field28), "28C" => f!(Field28C), "28D" => f!(Field28D), "30" => f!(Field30),
        "32A" => f!(Field32A), "32B" => f!(Field32B), "33B" => f!(Field33B), "34F" => f!(Field34F), "36" => f!(Field36), "37H" => f!(Field37H),
        "50K" => f!(Field50K), "50A" => f!(Field50A), "50F" => f!(Field50F), "51A" => f!(Field51A),
        "52A" => f!(Field52A), "52D" => f!(Field52D), "53A" => f!(Field53A), "53B" => f!(Field53B), "53D" => f!(Field53D),
        "56A" => f!(Field56A), "57A" => f!(Field57A), "57D" => f!(Field57D), "58A" => f!(Field58A), "59" => f!(Field59NoOption), "59A" => f!(Field59A), "59F" => f!(Field59F),
        "60F" => f!(Field60F), "60M" => f!(Field60M), "61" => f!(Field61), "62F" => f!(Field62F), "62M" => f!(Field62M), "64" => f!(Field64), "65" => f!(Field65),
        "70" => f!(Field70), "71A" => f!(Field71A), "71F" => f!(Field71F), "71G" => f!(Field71G), "72" => f!(Field72), "75" => f!(Field75), "76" => f!(Field76),
        "77A" => f!(Field77A), "77B" => f!(Field77B), "77T" => f!(Field77T), "79" => f!(Field79), "86" => f!(Field86), "90C" => f!(Field90C), "90D" => f!(Field90D),
        _ => format!("UNKNOWN-FIELD {}", tag),
    }
}


fn unescape(s: &str) -> String {
    let mut out = String::new();
    let mut it = s.chars().peekable();
    while let Some(c) = it.next() {
        if c != '\\' { out.push(c); continue; }
        match it.next() {
            Some('n') => out.push('\n'),
            Some('r') => out.push('\r'),
            Some('\\') => out.push('\\'),
            Some('u') => {
                let mut hex = String::new();
                if it.peek() == Some(&'{') { it.next(); }
                while let Some(&h) = it.peek() { if h == '}' { it.next(); break; } hex.push(h); it.next(); }
                if let Some(ch) = u32::from_str_radix(&hex, 16).ok().and_then(char::from_u32) { out.push(ch); }
            }
            Some(o) => { out.push('\\'); out.push(o); }
            None => out.push('\\'),
        }
    }
    out
}

fn show<T: std::fmt::Debug, E: std::fmt::Debug>(r: Result<T, E>) -> String {
    match r { Ok(v) => format!("OK {:?}", v), Err(e) => format!("ERR {:?}", e) }
}

fn run(entry: &str, input: &str) -> String {
    match entry {
        "parse_date_yymmdd" => show(su::parse_date_yymmdd(input)),
        "parse_date_yyyymmdd" => show(su::parse_date_yyyymmdd(input)),
        "parse_time_hhmm" => show(su::parse_time_hhmm(input)),
        "parse_datetime_yymmddhhmm" => show(su::parse_datetime_yymmddhhmm(input)),
        "parse_bic" => show(su::parse_bic(input)),
        "parse_currency" => show(su::parse_currency(input)),
        "parse_amount" => show(su::parse_amount(input)),
        "validate_iban" => show(su::validate_iban(input)),
        "block1" => show(BasicHeader::parse(input).map(|h| (format!("{:?}", h), h.to_string()))),
        "block2" => show(ApplicationHeader::parse(input).map(|h| (format!("{:?}", h), h.to_string()))),
        "block3" => show(UserHeader::parse(input).map(|h| (format!("{:?}", h), h.to_string()))),
        "block5" => show(Trailer::parse(input).map(|h| (format!("{:?}", h), h.to_string()))),
        "parse_auto" => match SwiftParser::parse_auto(input) {
            Ok(m) => format!("OK type={} valid={:?} mt={:?}", m.message_type(), m.validate().is_valid, match &m { _ => serde_json::to_string(&m).unwrap_or_default() }),
            Err(e) => format!("ERR {:?}", e),
        },
        e if e.starts_with("extract_block:") => show(SwiftParser::extract_block(input, e[14..].parse().unwrap_or(0))),
        e if e.starts_with("field:") => field(&e[6..], input),
        _ => format!("UNKNOWN-ENTRY {}", entry),
    }
}

fn main() {
    let args: Vec<String> = std::env::args().collect();
    if args.len() < 3 { eprintln!("usage: replay <entry> <input>"); std::process::exit(2); }
    let entry = args[1].clone();
    let input = unescape(&args[2]);
    panic::set_hook(Box::new(|_| {}));
    let r = panic::catch_unwind(|| run(&entry, &input));
    match r {
        Ok(s) => println!("{}", s),
        Err(e) => {
            let msg = e.downcast_ref::<String>().cloned().or_else(|| e.downcast_ref::<&str>().map(|s| s.to_string())).unwrap_or_default();
            println!("PANIC {}", msg)
        }
    }
}
