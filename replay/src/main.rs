//! replay -- run a witness against the REAL crate in /repo (public API) and print what happened.
//! usage: replay <entry> <input>      (input is taken literally; \n, \r, \\ and \u{..} escapes are decoded)
use std::panic;
use swift_mt_message::fields::swift_utils as su;

fn unescape(s: &str) -> String {
    let mut out = String::new();
    let mut it = s.chars().peekable();
    while let Some(c) = it.next() {
        if c != '\\' { out.push(c); continue; }
        match it.next() {
            Some('n') => out.push('\n'),
            Some('r') => out.push('\r'),
            Some('\\') => out.push('\\'),
            Some('u') => {
                let mut hex = String::new();
                if it.peek() == Some(&'{') { it.next(); }
                while let Some(&h) = it.peek() { if h == '}' { it.next(); break; } hex.push(h); it.next(); }
                if let Some(ch) = u32::from_str_radix(&hex, 16).ok().and_then(char::from_u32) { out.push(ch); }
            }
            Some(o) => { out.push('\\'); out.push(o); }
            None => out.push('\\'),
        }
    }
    out
}

fn show<T: std::fmt::Debug, E: std::fmt::Debug>(r: Result<T, E>) -> String {
    match r { Ok(v) => format!("OK {:?}", v), Err(e) => format!("ERR {:?}", e) }
}

fn run(entry: &str, input: &str) -> String {
    match entry {
        "parse_date_yymmdd" => show(su::parse_date_yymmdd(input)),
        "parse_date_yyyymmdd" => show(su::parse_date_yyyymmdd(input)),
        "parse_time_hhmm" => show(su::parse_time_hhmm(input)),
        "parse_datetime_yymmddhhmm" => show(su::parse_datetime_yymmddhhmm(input)),
        "parse_bic" => show(su::parse_bic(input)),
        "parse_currency" => show(su::parse_currency(input)),
        "parse_amount" => show(su::parse_amount(input)),
        "validate_iban" => show(su::validate_iban(input)),
        _ => format!("UNKNOWN-ENTRY {}", entry),
    }
}

fn main() {
    let args: Vec<String> = std::env::args().collect();
    if args.len() < 3 { eprintln!("usage: replay <entry> <input>"); std::process::exit(2); }
    let entry = args[1].clone();
    let input = unescape(&args[2]);
    panic::set_hook(Box::new(|_| {}));
    let r = panic::catch_unwind(|| run(&entry, &input));
    match r {
        Ok(s) => println!("{}", s),
        Err(e) => {
            let msg = e.downcast_ref::<String>().cloned().or_else(|| e.downcast_ref::<&str>().map(|s| s.to_string())).unwrap_or_default();
            println!("PANIC {}", msg)
        }
    }
}
